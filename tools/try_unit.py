import sys, json
sys.path.insert(0,'/verif')
from vf import verus
unit=sys.argv[1]; root=sys.argv[2] if len(sys.argv)>2 else '/repo'
r=verus.run_unit(root,'/verif/units/'+unit,'/var/tmp/verif-try-gen-'+unit)
print("undecided:",r.undecided)
print("canary:",r.canary_rejected, "tagged", r.tagged, "times", r.times)
for f in r.failed: print("FAILED", f['id'], f['where'], f['message'])
for n,i in r.verified_fns.items():
    if not i['success'] or i['ms']>2000: print("  fn",n,i)
print(len(r.obligations),"obligations;", sum(1 for o in r.obligations if o['status']=='discharged'),"discharged")
for f in r.functions: print(" extracted", f['name'], f['lines'], f['rewrites'], f.get('verified'))
print("trusted:", len(r.trusted))
print("hints removed:", getattr(r,'hints_removed',None))
print("unmatched wraps:", getattr(r,"unmatched_wraps",None))
