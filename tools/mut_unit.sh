#!/bin/bash
# usage: mut_unit.sh <unit> <repo-relative file> <python-regex> <replacement>
# applies ONE regex substitution to a scratch copy of /repo/src and runs the Verus unit on it
D=/var/tmp/mut-$$; rm -rf $D; mkdir -p $D; cp -r /repo/src $D/src
python3 - "$D/$2" "$3" "$4" <<'PY'
import sys,re
f=sys.argv[1]; s=open(f).read()
n=len(re.findall(sys.argv[2],s)); s2=re.sub(sys.argv[2],sys.argv[3],s,count=1)
print("matches",n,"changed",s!=s2); open(f,'w').write(s2)
PY
python3 /verif/tools/try_unit.py $1 $D 2>&1 | grep -E "FAILED|undecided|hints|obligations"
rm -rf $D
