import sys, json, os
sys.path.insert(0,'/verif')
from vf import kani as K, common as C
# usage: ktry.py target=harnessfile[,..] [harness names...]
appends={}
hs=[]
for a in sys.argv[1].split(','):
    t,f=a.split('=')
    appends[t]='/verif/'+f
    hs+=K.parse_harness_file('/verif/'+f, t)
want=sys.argv[2:]
if want: hs=[h for h in hs if h['fn'] in want or h['id'] in want]
os.environ['VERIF_KEEP_SCRATCH']='1'
d,st=K.prepare_copy('ktry',appends)
print(d,st)
for r in K.run_harnesses(d,hs):
    print(r['harness']['id'], r['status'], 'checks',r['n_checks'],'covers',r['covers'],'unsat',len(r['unsat_covers']),'solver',r['solver_s'],'wall',r['wall_s'], 'stubs', r['stubs'])
    for c in r['failed_checks']: print("   FAIL", c.get('desc'), c.get('loc'))
    if r['status'] not in ('success','failed'): print(r['raw_tail'][-1500:])
