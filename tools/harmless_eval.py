#!/usr/bin/env python3
"""False-alarm test: apply each semantics-preserving patch of <dir>/<n>/patch.diff to a scratch copy of /repo and run every
registered Verus unit on it (plus, with --kani, the property checks whose Kani harnesses read the touched file).
A failed obligation that does not fail on the unchanged tree is a FALSE ALARM; 'undecided' is reported separately."""
import json, os, re, shutil, subprocess, sys
sys.path.insert(0, "/verif")
from vf import verus as V, props as P, common as C

src = sys.argv[1]
camp = "harmless2" if "harmless2" in src else "harmless"
with_kani = "--kani" in sys.argv
units = sorted(u for u in os.listdir("/verif/units") if os.path.exists("/verif/units/%s/READY" % u))
KANI_BY_FILE = {"src/common/lct.rs": ["C06"], "src/common/alc.rs": ["C06"], "src/common/alccodec/": ["C06"], "src/common/oti.rs": ["C01"],
                "src/sender/block.rs": ["C08"], "src/fec/rscodec.rs": ["C08"], "src/fec/nocode.rs": ["C08"]}

def run_units(root, tag):
    out = {}
    for u in units:
        r = V.run_unit(root, "/verif/units/" + u, "/var/tmp/harmless-gen-%s/%s" % (tag, u))
        if r.failed and not r.undecided:
            r2 = V.run_unit(root, "/verif/units/" + u, "/var/tmp/harmless-gen-%s/%s-2" % (tag, u), rlimit=40)
            if not r2.undecided and len(r2.failed) < len(r.failed):
                r = r2
        out[u] = {"failed": sorted(f["id"] for f in r.failed), "undecided": r.undecided[:2], "n": len(r.obligations)}
    shutil.rmtree("/var/tmp/harmless-gen-%s" % tag, ignore_errors=True)
    return out

base = run_units("/repo", "base") if "--no-verus" not in sys.argv else {}
results = {"baseline_failed": {u: v["failed"] for u, v in base.items() if v["failed"]}, "edits": {}}
alarms = 0
only = None
for a in sys.argv:
    if a.startswith("--only="):
        only = a.split("=", 1)[1].split(",")
outname = "results.json" if not only else "results_%s.json" % ("kani" if with_kani else "rerun")
for n in sorted(os.listdir(src)):
    pd = os.path.join(src, n, "patch.diff")
    if not os.path.exists(pd) or (only and n not in only):
        continue
    scratch = "/var/tmp/harmless-%s" % n
    shutil.rmtree(scratch, ignore_errors=True)
    subprocess.run(["rsync", "-a", "--exclude", "target", "--exclude", ".git", "/repo/", scratch + "/"], check=True)
    p = subprocess.run("patch -p1 --no-backup-if-mismatch < %s" % pd, shell=True, cwd=scratch, capture_output=True, text=True)
    title = open(os.path.join(src, n, "README.md")).readline().strip().lstrip("# ") if os.path.exists(os.path.join(src, n, "README.md")) else ""
    files = re.findall(r"^\+\+\+ b/(\S+)", open(pd).read(), re.M)
    rec = {"title": title, "files": files, "applies": p.returncode == 0, "false_alarms": [], "undecided": [], "kani": {}}
    if p.returncode == 0:
        res = run_units(scratch, n) if "--no-verus" not in sys.argv else {}
        for u, v in res.items():
            new = [f for f in v["failed"] if f not in base[u]["failed"]]
            if new:
                rec["false_alarms"].append({"unit": u, "obligations": new})
            if v["undecided"] and not base[u]["undecided"]:
                rec["undecided"].append({"unit": u, "reason": [x[:200] for x in v["undecided"]]})
        if with_kani:
            props = sorted({p_ for f in files for k, ps in KANI_BY_FILE.items() if f.startswith(k) for p_ in ps})
            for pid in props:
                outdir = "/var/tmp/harmless-out-%s" % n
                os.makedirs(outdir, exist_ok=True)
                pr = subprocess.run(["python3", "/verif/run.py", pid, "--tier", "quick"], capture_output=True, text=True,
                                    env=dict(os.environ, VERIF_REPO=scratch, VERIF_OUT=outdir), timeout=7200)
                lines = [l[:300] for l in pr.stdout.split("\n") if re.match(r"(VIOLATION|UNDECIDED|OK)", l)]
                rec["kani"][pid] = {"exit": pr.returncode, "lines": lines}
                if pr.returncode == 1:
                    rec["false_alarms"].append({"check": pid, "lines": lines})
                shutil.rmtree(outdir, ignore_errors=True)
        dest = "/verif/seeded/%s/%s" % (camp, n)
        os.makedirs(dest, exist_ok=True)
        shutil.copy(pd, dest)
        if os.path.exists(os.path.join(src, n, "README.md")):
            shutil.copy(os.path.join(src, n, "README.md"), dest)
    shutil.rmtree(scratch, ignore_errors=True)
    alarms += len(rec["false_alarms"])
    results["edits"][n] = rec
    print(n, "applies" if rec["applies"] else "DOES NOT APPLY", "| false alarms:", rec["false_alarms"] or "none", "| undecided:", [x["unit"] for x in rec["undecided"]] or "none", "| kani:", {k: v["exit"] for k, v in rec["kani"].items()}, "|", title[:70], flush=True)
os.makedirs("/verif/seeded/" + camp, exist_ok=True)
json.dump(results, open("/verif/seeded/" + camp + "/" + outname, "w"), indent=1)
print("total false alarms:", alarms)
