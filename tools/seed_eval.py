#!/usr/bin/env python3
"""Evaluate one seeded change: confirm it (compiles, suite still passes, demo fails with / passes without),
run the registered checks against it (VERIF_REPO = scratch copy, /repo is never touched) and store it
under /verif/seeded/<name>/ (patch.diff, demo.diff, README.md, meta.json).

usage: seed_eval.py <seed out dir> <name> <property>[,<property>..] [--tier quick|thorough] [--skip-confirm]
"""
import json
import os
import re
import shutil
import subprocess
import sys
import time

VERIF = "/verif"
REPO = "/repo"
TARGET = "/var/tmp/seedeval-target"


def sh(cmd, cwd=None, env=None, timeout=3600):
    e = dict(os.environ)
    e.update({"CARGO_NET_OFFLINE": "true", "CARGO_TARGET_DIR": TARGET})
    if env:
        e.update(env)
    p = subprocess.run(cmd, shell=True, cwd=cwd, env=e, capture_output=True, text=True, timeout=timeout)
    return p.returncode, p.stdout + p.stderr


def test_summary(out):
    res = re.findall(r"test result: (\w+)\. (\d+) passed; (\d+) failed", out)
    failed = re.findall(r"^test (\S+) \.\.\. FAILED", out, re.M)
    return res, failed


def main():
    args = [a for a in sys.argv[1:] if not a.startswith("--")]
    src, name, props = args[0], args[1], args[2].split(",")
    tier = "thorough" if "--tier=thorough" in sys.argv else "quick"
    skip = "--skip-confirm" in sys.argv
    scratch = "/var/tmp/seedeval-%s" % name
    shutil.rmtree(scratch, ignore_errors=True)
    subprocess.run(["rsync", "-a", "--exclude", "target", "--exclude", ".git", REPO + "/", scratch + "/"], check=True)
    meta = {"name": name, "breaks_property": props, "source": src, "repo_head": subprocess.run(["git", "-C", REPO, "log", "-1", "--format=%h"], capture_output=True, text=True).stdout.strip(),
            "evaluated_at": time.strftime("%Y-%m-%d %H:%M:%S")}
    rc, out = sh("patch -p1 --no-backup-if-mismatch < %s/patch.diff" % src, cwd=scratch)
    meta["patch_applies"] = rc == 0
    if rc != 0:
        meta["patch_output"] = out[-800:]
        print(json.dumps(meta, indent=1))
        return 2
    confirm = {}
    if skip:
        try:
            confirm = json.load(open(os.path.join(VERIF, "seeded", name, "meta.json"))).get("confirmation", {})
        except Exception:
            confirm = {}
    if not skip:
        rc, out = sh("cargo test --offline --no-fail-fast 2>&1", cwd=scratch)
        res, failed = test_summary(out)
        confirm["suite_with_change"] = {"results": res, "failed_tests": failed}
        confirm["suite_still_passes"] = all(f.endswith("sender::fdt::tests::test_fdt") for f in failed) and len(res) >= 2
        if os.path.exists(os.path.join(src, "demo.diff")):
            rc, out = sh("patch -p1 --no-backup-if-mismatch < %s/demo.diff" % src, cwd=scratch)
            confirm["demo_applies"] = rc == 0
            demo_text = open(os.path.join(src, "demo.diff")).read()
            touched = re.findall(r"^\+\+\+ b/(\S+)", demo_text, re.M)
            # files the demonstration CREATES (removed again afterwards); files it only appends to are restored by patch -R
            new_files = re.findall(r"^--- /dev/null\n\+\+\+ b/(\S+)", demo_text, re.M)
            tests = [os.path.splitext(os.path.basename(f))[0] for f in touched if f.startswith("tests/")]
            mods = re.findall(r"^\+\s*(?:pub\s+)?mod\s+(\w+)", demo_text, re.M)
            demo_cmd = ("cargo test --offline --test %s 2>&1" % tests[0]) if tests else ("cargo test --offline --lib %s 2>&1" % (mods[0] + "::" if mods else "seed"))
            confirm["demo_cmd"] = demo_cmd
            rc1, out1 = sh("timeout 600 " + demo_cmd, cwd=scratch)
            r1, f1 = test_summary(out1)
            confirm["demo_with_change"] = {"rc": rc1, "results": r1, "failed": f1, "tail": out1[-600:]}
            sh("patch -R -p1 --no-backup-if-mismatch < %s/patch.diff" % src, cwd=scratch)
            rc2, out2 = sh("timeout 600 " + demo_cmd, cwd=scratch)
            r2, f2 = test_summary(out2)
            confirm["demo_without_change"] = {"rc": rc2, "results": r2, "failed": f2, "tail": out2[-300:]}
            ran1 = sum(int(a) + int(b) for _, a, b in r1)
            ran2 = sum(int(a) + int(b) for _, a, b in r2)
            confirm["demo_discriminates"] = rc1 != 0 and rc2 == 0 and ran2 > 0
            # back to: change applied, demo removed
            sh("patch -p1 --no-backup-if-mismatch < %s/patch.diff" % src, cwd=scratch)
            sh("patch -R -p1 --no-backup-if-mismatch < %s/demo.diff" % src, cwd=scratch)
            for f in new_files:
                try:
                    os.remove(os.path.join(scratch, f))
                except OSError:
                    pass
    meta["confirmation"] = confirm
    if "--confirm-only" in sys.argv:
        dest = os.path.join(VERIF, "seeded", name)
        mp = os.path.join(dest, "meta.json")
        m0 = json.load(open(mp))
        m0["confirmation"] = confirm
        json.dump(m0, open(mp, "w"), indent=1)
        shutil.rmtree(scratch, ignore_errors=True)
        print("%s: confirmation redone: suite_ok=%s demo_discriminates=%s (%s)" % (name, confirm.get("suite_still_passes"), confirm.get("demo_discriminates"), confirm.get("demo_cmd")))
        return 0
    # ---- run the checks against the changed tree
    outdir = "/var/tmp/seedeval-out-%s" % name
    shutil.rmtree(outdir, ignore_errors=True)
    os.makedirs(outdir)
    detections = {}
    for p in props:
        t0 = time.time()
        pr = subprocess.run(["python3", os.path.join(VERIF, "run.py"), p, "--tier", tier], capture_output=True, text=True,
                            env=dict(os.environ, VERIF_REPO=scratch, VERIF_OUT=outdir), timeout=7200)
        lines = [l for l in pr.stdout.split("\n") if re.match(r"(VIOLATION|UNDECIDED|OK|KNOWN-FINDING)", l)]
        viol = []
        for l in lines:
            m = re.match(r"VIOLATION property=(\S+) replay=(\S+)(.*)", l)
            if m:
                try:
                    d = json.load(open(m.group(2)))
                    viol.append({"obligation": d["obligation"], "witness": d.get("witness"), "no_failing_input_found": d.get("no_failing_input_found")})
                except Exception:
                    viol.append({"line": l})
        detections[p] = {"exit": pr.returncode, "detected": pr.returncode == 1, "violations": viol, "other_lines": [l[:300] for l in lines if not l.startswith("VIOLATION")],
                         "wall_s": round(time.time() - t0, 1)}
    meta["checks"] = detections
    meta["caught_by"] = [p for p, d in detections.items() if d["detected"]]
    dest = os.path.join(VERIF, "seeded", name)
    os.makedirs(dest, exist_ok=True)
    for f in ("patch.diff", "demo.diff", "README.md"):
        if os.path.exists(os.path.join(src, f)):
            shutil.copy(os.path.join(src, f), os.path.join(dest, f))
    with open(os.path.join(dest, "meta.json"), "w") as f:
        json.dump(meta, f, indent=1)
    shutil.rmtree(scratch, ignore_errors=True)
    shutil.rmtree(outdir, ignore_errors=True)
    print("%s: patch_applies=%s suite_ok=%s demo_discriminates=%s caught_by=%s" % (
        name, meta["patch_applies"], confirm.get("suite_still_passes"), confirm.get("demo_discriminates"), meta["caught_by"]))
    for p, d in detections.items():
        print("   %s exit=%s %s" % (p, d["exit"], "; ".join(v.get("obligation", "?")[:90] for v in d["violations"]) or "; ".join(d["other_lines"])[:200]))
    return 0


if __name__ == "__main__":
    sys.exit(main())
