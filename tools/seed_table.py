#!/usr/bin/env python3
"""prints the markdown table of /verif/seeded/*/meta.json (used for DESIGN.md section 11.7)"""
import glob, json, os, re
rows = []
for mp in sorted(glob.glob("/verif/seeded/*/meta.json")):
    m = json.load(open(mp))
    d = os.path.dirname(mp)
    title = ""
    rp = os.path.join(d, "README.md")
    if os.path.exists(rp):
        for ln in open(rp):
            if ln.startswith("#"):
                title = re.sub(r"^#+\s*", "", ln).strip()
                title = re.sub(r"^(Seed\s+)?C\d\d\s*(/|seed)?\s*\d?\s*[-–—:]*\s*", "", title, flags=re.I)
                break
    c = m.get("confirmation", {})
    obl = []
    outcome = "missed"
    for p, r in m.get("checks", {}).items():
        if r["exit"] == 1:
            outcome = "caught"
            obl += [v.get("obligation", "?") for v in r["violations"]]
        elif r["exit"] == 2 and outcome != "caught":
            outcome = "undecided (exit 2)"
    how = ""
    if obl:
        kinds = set("native stand-in" if o.startswith("native-search") else ("Kani" if "@" in o else ("S" if ".S." in o else "Verus")) for o in obl)
        how = "/".join(sorted(kinds))
    rows.append("| %s | %s | %s | %s | %s | %s |" % (m["name"], title[:110], "yes" if c.get("suite_still_passes") else "?", "yes" if c.get("demo_discriminates") else "?", outcome + (" (" + how + ")" if how else ""), "; ".join(o[:80] for o in obl[:2])))
print("| seed | change | suite passes | demo fails with / passes without | outcome | first failing obligation(s) |")
print("|---|---|---|---|---|---|")
print("\n".join(rows))
n = len(rows)
print("\n%d seeded changes: %d caught, %d undecided, %d missed" % (n, sum("| caught" in r for r in rows), sum("undecided" in r for r in rows), sum("| missed" in r for r in rows)))
