#!/bin/bash
# runs every claimed check (quick tier by default) and prints one line per property
cd /verif
TIER=${1:-quick}
for p in $(python3 -c "import sys; sys.path.insert(0,'/verif'); from vf import props as P; print(' '.join(sorted(P.claimed())))"); do
  out=$(python3 run.py $p --tier $TIER 2>&1 | grep -E "^(OK|VIOLATION|UNDECIDED|KNOWN-FINDING)" | cut -c1-260)
  echo "[$p] rc=$? $out"
done
