"""Lexer-level helpers for Rust source: masking of comments/strings, brace matching,
item location.  No parsing beyond what is needed to copy items verbatim."""
import re


def mask_code(src: str) -> str:
    """Return a string of the same length as src in which the *contents* of comments,
    string literals, raw strings and char literals are replaced by spaces (newlines kept).
    Delimiters of strings are kept so that `"..."` still looks like a token."""
    out = list(src)
    i, n = 0, len(src)

    def blank(a, b):
        for k in range(a, b):
            if out[k] != "\n":
                out[k] = " "

    while i < n:
        c = src[i]
        if c == "/" and i + 1 < n and src[i + 1] == "/":
            j = src.find("\n", i)
            if j < 0:
                j = n
            blank(i, j)
            i = j
        elif c == "/" and i + 1 < n and src[i + 1] == "*":
            depth, j = 1, i + 2
            while j < n and depth > 0:
                if src.startswith("/*", j):
                    depth += 1
                    j += 2
                elif src.startswith("*/", j):
                    depth -= 1
                    j += 2
                else:
                    j += 1
            blank(i, j)
            i = j
        elif c == '"':
            j = i + 1
            while j < n and src[j] != '"':
                if src[j] == "\\":
                    j += 1
                j += 1
            blank(i + 1, min(j, n))
            i = j + 1
        elif c == "r" and re.match(r'r#*"', src[i:i + 8]) and (i == 0 or not (src[i - 1].isalnum() or src[i - 1] == "_")):
            m = re.match(r'r(#*)"', src[i:])
            hashes = m.group(1)
            end = '"' + hashes
            j = src.find(end, i + len(m.group(0)))
            if j < 0:
                j = n
            blank(i + len(m.group(0)), j)
            i = j + len(end)
        elif c == "b" and i + 1 < n and src[i + 1] == '"' and (i == 0 or not (src[i - 1].isalnum() or src[i - 1] == "_")):
            i += 1  # handled as a normal string at next iteration
        elif c == "'":
            # char literal or lifetime
            m = re.match(r"'(\\.[^']*|[^\\'])'", src[i:i + 12])
            if m:
                blank(i + 1, i + len(m.group(0)) - 1)
                i += len(m.group(0))
            else:
                i += 1
        else:
            i += 1
    return "".join(out)


OPEN = {"(": ")", "[": "]", "{": "}"}
CLOSE = {v: k for k, v in OPEN.items()}


def match_close(masked: str, pos: int) -> int:
    """pos is the index of an opening bracket in masked; return index of its match."""
    stack = []
    i, n = pos, len(masked)
    while i < n:
        c = masked[i]
        if c in OPEN:
            stack.append(c)
        elif c in CLOSE:
            if not stack or stack[-1] != CLOSE[c]:
                raise ValueError("unbalanced bracket at %d" % i)
            stack.pop()
            if not stack:
                return i
        i += 1
    raise ValueError("no matching bracket for position %d" % pos)


def depth_at(masked: str, start: int, pos: int) -> int:
    """Brace depth ({ } only) at pos, counted from start."""
    d = 0
    for c in masked[start:pos]:
        if c == "{":
            d += 1
        elif c == "}":
            d -= 1
    return d


def line_of(src: str, pos: int) -> int:
    return src.count("\n", 0, pos) + 1


class Located:
    def __init__(self, start, sig_end, body_open, body_close, end):
        self.start = start          # first char of the item (after attributes/doc comments)
        self.sig_end = sig_end      # index just before the body '{' (fn) / after header (struct)
        self.body_open = body_open  # index of '{'
        self.body_close = body_close
        self.end = end              # one past last char


def find_impl_blocks(src, masked):
    """yield (header_text, open_idx, close_idx) for every impl block at brace depth 0."""
    res = []
    for m in re.finditer(r"\bimpl\b", masked):
        if depth_at(masked, 0, m.start()) != 0:
            continue
        j = masked.find("{", m.end())
        k = masked.find(";", m.end())
        if j < 0 or (0 <= k < j):
            continue
        header = masked[m.start():j]
        res.append((header, j, match_close(masked, j)))
    return res


def impl_self_type(header: str) -> str:
    """`impl<'a> Trait for Type<'a>` -> Type ; `impl Type` -> Type ; `impl dyn Tr` -> dyn Tr"""
    h = re.sub(r"^impl\s*(<[^>]*>)?", "", header.strip()).strip()
    trait = None
    m = re.search(r"\bfor\b", h)
    if m:
        trait = h[:m.start()].strip()
        h = h[m.end():].strip()
    h = re.sub(r"\bwhere\b.*$", "", h, flags=re.S).strip()
    h = re.sub(r"<.*>$", "", h).strip()
    return h, trait


def find_fn(src, masked, name, impl_type=None, impl_trait=None):
    """Locate `fn name` either at depth 0 (impl_type None) or directly inside an impl block
    whose self type is impl_type (and whose trait is impl_trait, if given)."""
    ranges = []
    if impl_type is None:
        ranges.append((0, len(src), 0))
    else:
        for header, o, c in find_impl_blocks(src, masked):
            ty, tr = impl_self_type(header)
            if ty.split("::")[-1] != impl_type:
                continue
            if impl_trait is not None:
                if tr is None or re.sub(r"<.*>$", "", tr).split("::")[-1] != impl_trait:
                    continue
            ranges.append((o + 1, c, 0))
    found = []
    for a, b, want_depth in ranges:
        for m in re.finditer(r"\bfn\s+" + re.escape(name) + r"\b", masked[a:b]):
            p = a + m.start()
            if depth_at(masked, a, p) != want_depth:
                continue
            found.append(p)
    if len(found) != 1:
        raise LookupError("fn %s (impl %s): %d matches" % (name, impl_type, len(found)))
    p = found[0]
    # walk back over qualifiers
    start = p
    while True:
        m = re.search(r"(pub(\s*\([^)]*\))?|const|async|unsafe|extern(\s*\"[^\"]*\")?)\s*$", masked[:start])
        if not m:
            break
        start = m.start()
    # body: first '{' at paren/bracket depth 0 after the fn keyword
    i = p
    d = 0
    while True:
        c = masked[i]
        if c in "([":
            d += 1
        elif c in ")]":
            d -= 1
        elif c == "{" and d == 0:
            break
        elif c == ";" and d == 0:
            raise LookupError("fn %s has no body" % name)
        i += 1
    close = match_close(masked, i)
    return Located(start, i, i, close, close + 1)


def find_item(src, masked, kind, name):
    """kind in struct/enum; item at depth 0."""
    found = []
    for m in re.finditer(r"\b" + kind + r"\s+" + re.escape(name) + r"\b", masked):
        if depth_at(masked, 0, m.start()) == 0:
            found.append(m.start())
    if len(found) != 1:
        raise LookupError("%s %s: %d matches" % (kind, name, len(found)))
    p = found[0]
    start = p
    m = re.search(r"pub(\s*\([^)]*\))?\s*$", masked[:start])
    if m:
        start = m.start()
    i = p
    while masked[i] not in "{;(":
        i += 1
    if masked[i] == ";":
        return Located(start, i, None, None, i + 1)
    close = match_close(masked, i)
    end = close + 1
    if masked[i] == "(":
        # tuple struct: ends with ';'
        j = masked.find(";", close)
        end = j + 1
    return Located(start, i, i, close, end)


def find_const(src, masked, name):
    found = []
    for m in re.finditer(r"\b(const|static)\s+" + re.escape(name) + r"\b", masked):
        found.append(m.start())
    if len(found) != 1:
        raise LookupError("const %s: %d matches" % (name, len(found)))
    p = found[0]
    start = p
    m = re.search(r"pub(\s*\([^)]*\))?\s*$", masked[:start])
    if m:
        start = m.start()
    j = masked.find(";", p)
    return Located(start, j, None, None, j + 1)


def split_top_commas(masked_seg: str):
    """indices of commas at bracket depth 0 in masked_seg (angle brackets are not tracked)."""
    d = 0
    res = []
    for i, c in enumerate(masked_seg):
        if c in "([{":
            d += 1
        elif c in ")]}":
            d -= 1
        elif c == "," and d == 0:
            res.append(i)
    return res
