import atexit
import json
import os
import shutil
import subprocess
import sys
import time

VERIF = "/verif"
REPO = os.environ.get("VERIF_REPO", "/repo")
OUT = os.environ.get("VERIF_OUT", VERIF)  # evidence/ and replays/ (redirected by the self-test only)
CACHE = os.path.join(VERIF, ".cache")
SCRATCH_PARENT = "/var/tmp"

_scratch = None


def scratch_dir(tag):
    """scratch directory outside /repo and /verif, removed at exit"""
    global _scratch
    if _scratch is None:
        _scratch = os.path.join(SCRATCH_PARENT, "flute-verif-%s-%d" % (tag, os.getpid()))
        shutil.rmtree(_scratch, ignore_errors=True)
        os.makedirs(_scratch)
        if not os.environ.get("VERIF_KEEP_SCRATCH"):
            atexit.register(lambda: shutil.rmtree(_scratch, ignore_errors=True))
    return _scratch


def repo_copy(tag):
    """byte-identical copy of /repo's working tree (minus target/ and .git/)"""
    d = os.path.join(scratch_dir(tag), "repo")
    if not os.path.exists(d):
        subprocess.run(["rsync", "-a", "--exclude", "target", "--exclude", ".git", REPO + "/", d + "/"], check=True)
    return d


def offline_env(extra=None):
    env = dict(os.environ)
    env.update({"CARGO_NET_OFFLINE": "true", "GOPROXY": "off", "PIP_NO_INDEX": "1"})
    if extra:
        env.update(extra)
    return env


def test_env(extra=None):
    """environment of every native `cargo test` run on a scratch copy (one shared target dir,
    so the flags must never vary or the dependencies are rebuilt)"""
    e = {"CARGO_TARGET_DIR": os.path.join(CACHE, "test-target"), "RUST_BACKTRACE": "0",
         "RUSTFLAGS": "--check-cfg=cfg(kani)"}
    if extra:
        e.update(extra)
    return offline_env(e)


def load_known_findings():
    p = os.path.join(VERIF, "known_findings.json")
    if not os.path.exists(p):
        return []
    return json.load(open(p))


def seed():
    try:
        return int(os.environ.get("VERIF_SEED", "0"))
    except ValueError:
        return 0


def log(*a):
    print(*a, file=sys.stderr, flush=True)
