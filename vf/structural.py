"""Syntactic frame obligations (S): mechanical scans of call sites in the real files, used only where a property part is purely
structural and the code is outside both verifiers (iterator adapters, closures over trait objects, BTreeMap iteration).
Each function returns a list of {id, status: discharged|failed|undecided, where, message}.  They are reported in their own
evidence field (`structural_checks`) and never counted as proved obligations."""
import os
import re

from . import rustlex as L


def _load(repo, rel):
    p = os.path.join(repo, rel)
    if not os.path.exists(p):
        return None, None
    src = open(p, encoding="utf-8").read()
    return src, L.mask_code(src)


def _fn_body(src, masked, name, impl_type=None, trait=None):
    try:
        loc = L.find_fn(src, masked, name, impl_type, trait)
    except LookupError:
        return None, None, None
    return src[loc.body_open:loc.end], masked[loc.body_open:loc.end], L.line_of(src, loc.start)


def _enclosing_fn(src, masked, pos):
    """name of the innermost `fn` whose body contains pos"""
    best = None
    for m in re.finditer(r"\bfn\s+(\w+)", masked):
        if m.start() > pos:
            break
        i = masked.find("{", m.end())
        semi = masked.find(";", m.end())
        if i < 0 or (0 <= semi < i):
            continue
        try:
            close = L.match_close(masked, i)
        except ValueError:
            continue
        if i < pos < close:
            best = m.group(1)
    return best


def _res(oid, ok, where, msg, undecided=False):
    return {"id": oid, "status": "undecided" if undecided else ("discharged" if ok else "failed"), "where": where, "message": msg, "kind": "S"}


# ------------------------------------------------------------------------------------------------ C05
def s_fs_sinks_flow_from_confinement(repo):
    rel = "src/receiver/writer/objectwriterfs.rs"
    src, masked = _load(repo, rel)
    out = []
    if src is None:
        return [_res("C05.S.fs_sinks", False, rel, "file missing", True)]
    body, mbody, line = _fn_body(src, masked, "open", "ObjectWriterFS", "ObjectWriter")
    if body is None:
        return [_res("C05.S.fs_sinks", False, rel, "ObjectWriterFS::open not found (lost anchor)", True)]
    # 1. the destination is bound from confined_destination(&self.dest, ..) and from nothing else
    binds = re.findall(r"let\s+(?:mut\s+)?destination\b[^;]*?=\s*([^;]*?);", mbody, re.S)
    ok1 = len(binds) == 1 and re.match(r"match\s+confined_destination\(\s*&self\.dest\s*,", binds[0].strip()) is not None \
        and re.search(r"(?<![\.\w])destination\s*=[^=>]", re.sub(r"let\s+(?:mut\s+)?destination\b[^=]*=", "", mbody)) is None \
        and re.search(r"Some\(destination\)\s*=>\s*destination\s*,", mbody) is not None
    out.append(_res("C05.S.open.destination_comes_from_confined_destination", ok1, "%s:%d" % (rel, line),
                    "`destination` in ObjectWriterFS::open must be bound exactly once, by `match confined_destination(&self.dest, ..)`, and never reassigned"))
    # 2. every filesystem sink of the file takes a path derived from `destination`
    sinks = [(m.start(), m.group(0)) for m in re.finditer(r"\b(?:std::fs::|fs::)?(?:File::(?:create|create_new|open|options)|OpenOptions\b|create_dir_all|create_dir|remove_file|remove_dir_all|remove_dir|rename|copy|hard_link|write|set_permissions|symlink)\s*\(", masked)
             if "fs::" in m.group(0) or "File::" in m.group(0) or "OpenOptions" in m.group(0)]
    allowed = {
        "create_dir_all": r"create_dir_all\(\s*parent\s*\)",
        "File::create": r"File::create\(\s*&destination\s*\)",
        "remove_file": r"remove_file\(\s*inner\.destination\.as_ref\(\)\.unwrap\(\)\s*\)",
    }
    bad = []
    for pos, tok in sinks:
        seg = masked[pos:pos + 120]
        if not any(re.match(r"(?:std::fs::|fs::)?" + rx, seg) for rx in allowed.values()):
            bad.append("%s:%d %s" % (rel, L.line_of(src, pos), src[pos:pos + 60].split("\n")[0]))
    out.append(_res("C05.S.only_known_fs_sinks", not bad and len(sinks) >= 3, rel,
                    "filesystem sinks other than create_dir_all(parent), File::create(&destination), remove_file(inner.destination..): %s" % bad if bad else
                    "%d sinks, all of the three known forms" % len(sinks)))
    # 3. `parent` derives from destination.parent(); inner.destination is only ever Some(destination..) or None
    ok3 = re.search(r"let\s+parent\s*=\s*destination\.parent\(\)\s*;", mbody) is not None
    assigns = re.findall(r"inner\.destination\s*=(?!=)\s*(None\b|Some\([^;{}]*\)|[^;{}\n]*)", masked)
    ok4 = all(re.match(r"\s*(None|Some\(destination\.to_path_buf\(\)\))\s*$", a) for a in assigns) and len(assigns) >= 1
    out.append(_res("C05.S.parent_and_remembered_path_derive_from_destination", ok3 and ok4, rel,
                    "`parent` must be destination.parent() and inner.destination only Some(destination.to_path_buf()) or None (found: %s)" % assigns))
    # 4. confined_destination itself only pushes Normal components
    cb, cm, cl = _fn_body(src, masked, "confined_destination")
    ok5 = cb is not None and re.search(r"Component::Normal\(\w+\)\s*=>\s*\{\s*destination\.push\(\w+\)", cm) is not None \
        and len(re.findall(r"\.push\(", cm)) == 1 and re.search(r"_\s*=>\s*return\s+None", cm) is not None and ".join(" not in cm
    out.append(_res("C05.S.confined_destination_pushes_normal_components_only", ok5, rel,
                    "confined_destination must push only Component::Normal names onto a copy of dest and return None for every other component but CurDir"))
    return out


# ------------------------------------------------------------------------------------------------ C09
def s_writer_calls_only_in_contracted_functions(repo):
    out = []
    rel = "src/receiver/objectreceiver.rs"
    src, masked = _load(repo, rel)
    if src is None:
        return [_res("C09.S.writer_calls", False, rel, "file missing", True)]
    contracted = {"init_object_writer": {"open"}, "complete": {"complete"}, "error": {"error", "interrupted"}, "write_blocks": set()}
    bad = []
    for m in re.finditer(r"\.writer\s*\.\s*(open|write|complete|error|interrupted)\s*\(", masked):
        fn = _enclosing_fn(src, masked, m.start())
        if fn not in contracted or m.group(1) not in contracted[fn]:
            bad.append("%s:%d .writer.%s( in fn %s" % (rel, L.line_of(src, m.start()), m.group(1), fn))
    out.append(_res("C09.S.objectreceiver.writer_calls_only_in_monitored_functions", not bad, rel,
                    "; ".join(bad) or "every .writer.{open,complete,error,interrupted}( call is in a function whose calls are monitored by unit objrecv"))
    # the writer reference leaves objectreceiver.rs only towards BlockWriter::write
    leaks = []
    for m in re.finditer(r"\.writer\s*\.\s*as_ref\s*\(\s*\)", masked):
        fn = _enclosing_fn(src, masked, m.start())
        if fn != "write_blocks":
            leaks.append("%s:%d in fn %s" % (rel, L.line_of(src, m.start()), fn))
    out.append(_res("C09.S.objectreceiver.writer_reference_passed_only_to_blockwriter_write", not leaks, rel,
                    "; ".join(leaks) or "the writer trait object is handed out only in write_blocks (to BlockWriter::write)"))
    rel2 = "src/receiver/blockwriter.rs"
    src2, masked2 = _load(repo, rel2)
    if src2 is None:
        return out + [_res("C09.S.blockwriter", False, rel2, "file missing", True)]
    others = [L.line_of(src2, m.start()) for m in re.finditer(r"\bwriter\s*\.\s*(open|complete|error|interrupted|enable_md5_check)\s*\(", masked2)]
    writes = len(re.findall(r"\bwriter\s*\.\s*write\s*\(", masked2))
    out.append(_res("C09.S.blockwriter.only_write_is_invoked_on_the_writer", not others and writes >= 1, rel2,
                    "blockwriter.rs invokes %d writer.write( and other writer methods at lines %s" % (writes, others)))
    return out


# ------------------------------------------------------------------------------------------------ C11 / C13
def _sender_read(repo):
    rel = "src/sender/sender.rs"
    src, masked = _load(repo, rel)
    if src is None:
        return rel, None, None, None, None
    body, mbody, line = _fn_body(src, masked, "read", "Sender")
    return rel, src, masked, mbody, line


def s_sender_read_polls_fdt_first(repo):
    rel, src, masked, mbody, line = _sender_read(repo)
    if mbody is None:
        return [_res("C11.S.sender_read", False, rel, "Sender::read not found (lost anchor)", True)]
    first_run = mbody.find("self.fdt_session.run(&mut self.fdt, now)")
    loop = mbody.find("for session in")
    ok = 0 <= first_run < loop and re.search(r"if\s+let\s+Some\(fdt_data\)\s*=\s*self\.fdt_session\.run\(&mut self\.fdt, now\)\s*\{\s*return\s+Some\(fdt_data\);", mbody[:loop]) is not None
    return [_res("C11.S.sender_read.fdt_session_polled_before_any_file_session", ok, "%s:%d" % (rel, line),
                 "Sender::read must poll the FDT session and return its packet before iterating over the file sessions")]


def s_sender_read_priority_order(repo):
    rel, src, masked, mbody, line = _sender_read(repo)
    if mbody is None:
        return [_res("C13.S.sender_read", False, rel, "Sender::read not found (lost anchor)", True)]
    out = []
    ok1 = re.search(r"sessions\s*:\s*std::collections::BTreeMap<u32,\s*SenderSessionList>", masked) is not None
    out.append(_res("C13.S.sessions_is_a_btreemap_keyed_by_priority", ok1, rel,
                    "Sender.sessions must be a BTreeMap<u32, SenderSessionList> (std guarantees ascending key order of iteration)"))
    m = re.search(r"for\s+session\s+in\s+&mut\s+self\.sessions\s*\{(.*?)\n\s{8}\}", mbody, re.S)
    ok2 = m is not None and re.search(r"let\s+data\s*=\s*Self::read_priority_queue\(fdt,\s*session\.1,\s*now\);\s*if\s+data\.is_some\(\)\s*\{\s*return\s+data;\s*\}", m.group(1)) is not None \
        and "continue" not in m.group(1) and ".rev()" not in mbody
    out.append(_res("C13.S.sender_read.first_queue_with_a_packet_wins", bool(ok2), "%s:%d" % (rel, line),
                    "the loop over self.sessions must call read_priority_queue for each queue in map order and return the first packet"))
    return out


def s_sender_new_session_count(repo):
    rel = "src/sender/sender.rs"
    src, masked = _load(repo, rel)
    if src is None:
        return [_res("C13.S.sender_new", False, rel, "file missing", True)]
    body, mbody, line = _fn_body(src, masked, "new", "Sender")
    if mbody is None:
        return [_res("C13.S.sender_new", False, rel, "Sender::new not found (lost anchor)", True)]
    ok = re.search(r"let\s+multiplex_files\s*=\s*match\s+priority_queue_config\.multiplex_files\s*\{\s*0\s*=>\s*1,\s*n\s*=>\s*n,\s*\};", mbody) is not None \
        and re.search(r"\(0\.\.multiplex_files\)\s*\.map\(", mbody) is not None and re.search(r"index:\s*0,\s*sessions:\s*new_sessions", mbody) is not None
    return [_res("C13.S.sender_new.max_1_multiplex_files_sessions_per_queue", ok, "%s:%d" % (rel, line),
                 "Sender::new must create max(1, multiplex_files) sessions per priority queue, round-robin index starting at 0")]


# ------------------------------------------------------------------------------------------------ C15
def s_toi_field_copies(repo):
    checks = [
        ("src/sender/blockencoder.rs", r"toi:\s*self\.file\.toi,", "BlockEncoder::read copies FileDesc.toi into every Pkt"),
        ("src/common/alc.rs", r"lct::push_lct_header\(\s*&mut data,\s*0,\s*cci,\s*tsi,\s*&pkt\.toi,", "new_alc_pkt passes Pkt.toi to push_lct_header"),
        ("src/sender/toiallocator.rs", r"pub fn get\(&self\)\s*->\s*u128\s*\{\s*self\.value\s*\}", "Toi::get returns the allocated value"),
        ("src/sender/toiallocator.rs", r"let\s+toi\s*=\s*db\.allocate\(\);\s*Box::new\(Toi\s*\{\s*allocator:\s*allocator\.clone\(\),\s*value:\s*toi,", "ToiAllocator::allocate wraps exactly the allocated value"),
    ]
    out = []
    for rel, rx, what in checks:
        src, masked = _load(repo, rel)
        ok = src is not None and re.search(rx, masked) is not None
        out.append(_res("C15.S." + re.sub(r"\W+", "_", what)[:60], ok, rel, what))
    return out


# ------------------------------------------------------------------------------------------------ C18
def s_session_open_only_on_creation(repo):
    rel = "src/receiver/multireceiver.rs"
    src, masked = _load(repo, rel)
    if src is None:
        return [_res("C18.S.session_open", False, rel, "file missing", True)]
    opens = [m.start() for m in re.finditer(r"\.on_session_open\s*\(", masked)]
    ok = len(opens) == 1
    if ok:
        fn = _enclosing_fn(src, masked, opens[0])
        seg = masked[:opens[0]]
        k = seg.rfind("or_insert_with(|| {")
        ok = fn == "get_receiver_or_create" and k >= 0 and "})" not in masked[k:opens[0]] and re.search(r"\.entry\(key\.clone\(\)\)\s*\.or_insert_with\(", masked) is not None
    return [_res("C18.S.on_session_open_only_inside_or_insert_with", ok, rel,
                 "on_session_open must be invoked at exactly one site, inside the or_insert_with closure of get_receiver_or_create (i.e. only when the key is absent)")]
