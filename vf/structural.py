"""Syntactic frame obligations (S): mechanical scans of call sites in the real files.
Each function returns a list of {id, status: discharged|failed|undecided, where, message}."""
import os
import re

from . import rustlex as L


def _load(repo, rel):
    p = os.path.join(repo, rel)
    if not os.path.exists(p):
        return None, None
    src = open(p, encoding="utf-8").read()
    return src, L.mask_code(src)
