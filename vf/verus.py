"""Run Verus on a generated unit and turn its diagnostics into an obligation table."""
import json
import os
import re
import subprocess
import time

from .extract import Extractor, ExtractError

VERIF_FAIL_MSGS = [
    ("postcondition not satisfied", "post"),
    ("precondition not satisfied", "pre"),
    ("unable to prove post-condition of closure", "post"),
    ("unable to prove pre-condition of closure", "pre"),
    ("unable to prove assertion", "assert"),
    ("assertion failed", "assert"),
    ("possible arithmetic underflow/overflow", "overflow"),
    ("possible division by zero", "divzero"),
    ("invariant not satisfied at end of loop body", "inv_end"),
    ("invariant not satisfied before loop", "inv_init"),
    ("decreases not satisfied", "decreases"),
    ("loop invariant not satisfied", "inv"),
    ("possible bit shift underflow/overflow", "shift"),
    ("unreachable", "unreachable"),
    ("recommendation not met", "recommends"),
    ("index out of bounds", "index"),
    ("possible truncation", "trunc"),
    ("could not prove termination", "termination"),
    ("failed to prove", "other"),
]
UNDECIDED_MSGS = ["rlimit", "Resource limit", "timed out", "solver", "z3"]

TRUST_TOKENS = [
    r"#\[verifier::external_body\]", r"\bassume\s*\(", r"\badmit\s*\(", r"\bassume_specification\b",
    r"exec_allows_no_decreases_clause", r"#\[verifier::external\b", r"external_type_specification",
    r"#\[verifier::external_fn_specification", r"\baxiom\b", r"broadcast\s+axiom",
]


class UnitResult:
    def __init__(self):
        self.unit = None
        self.gen_path = None
        self.functions = []          # extractor records
        self.types = []
        self.rewrite_counts = {}
        self.obligations = []        # dicts {id, fn, kind, status, backend, where}
        self.failed = []             # subset with status failed
        self.undecided = []          # reasons
        self.trusted = []            # (item line, reason)
        self.canary_rejected = None
        self.verified_fns = {}
        self.times = {}
        self.raw_err = ""
        self.cmd = ""
        self.tagged = 0


def generate(repo_root, unit_dir, out_dir):
    tpl = os.path.join(unit_dir, "unit.vrs")
    ex = Extractor(repo_root, tpl).run()
    text, linemap = ex.render()
    name = os.path.basename(unit_dir.rstrip("/"))
    os.makedirs(out_dir, exist_ok=True)
    gen = os.path.join(out_dir, "unit_%s.rs" % name)
    with open(gen, "w") as f:
        f.write(text)
    return ex, text, linemap, gen


def scan_trusted(text):
    """every trust token must be preceded (within 4 lines) by a `// TRUSTED:` comment"""
    lines = text.split("\n")
    found, missing = [], []
    for i, ln in enumerate(lines):
        code = ln.split("//")[0]
        for tok in TRUST_TOKENS:
            if re.search(tok, code):
                reason = None
                for k in range(i, max(-1, i - 16), -1):
                    m = re.search(r"//\s*TRUSTED:\s*(.*)", lines[k])
                    if m:
                        reason = m.group(1).strip()
                        # continuation lines
                        kk = k + 1
                        while kk < i and lines[kk].strip().startswith("//") and "TRUSTED" not in lines[kk]:
                            reason += " " + lines[kk].strip().lstrip("/").strip()
                            kk += 1
                        break
                item = None
                for k in range(i, min(len(lines), i + 6)):
                    m = re.search(r"\b(fn|struct|type|proof fn|assume_specification)\s*[<\[]?\s*([\w:<> ]+)", lines[k])
                    if m and not lines[k].strip().startswith("//") and not lines[k].strip().startswith("#["):
                        item = lines[k].strip()[:100]
                        break
                if reason is None:
                    missing.append((i + 1, ln.strip()))
                else:
                    found.append({"line": i + 1, "token": re.sub(r"\\[bs]\*?|\\", "", tok), "item": item, "reason": reason})
                break
    return found, missing


def _fn_of_line(functions, gen_line):
    for r in functions:
        if r.get("gen_line_start") and r["gen_line_start"] <= gen_line <= r.get("gen_line_end", 0):
            return r
    return None


def _enclosing_item(lines, gen_line):
    """name of the fn (exec/proof/spec) whose header is the closest above gen_line"""
    for k in range(gen_line - 1, -1, -1):
        m = re.match(r"\s*(?:pub\s+)?(?:open\s+|closed\s+)?(?:proof\s+|spec\s+|exec\s+)?fn\s+(\w+)", lines[k])
        if m:
            return m.group(1)
    return "?"


def _blank_statement(text, gen_line, col):
    """blank the proof statement that starts at (gen_line, col) (1-based) in text; returns (new_text, removed)"""
    from . import rustlex as L
    lines = text.split("\n")
    off = sum(len(x) + 1 for x in lines[:gen_line - 1]) + (col - 1)
    masked = L.mask_code(text)
    # walk back to the start of the statement (after previous ';', '{' or '}')
    a = off
    while a > 0 and masked[a - 1] not in ";{}":
        a -= 1
    d, k = 0, a
    n = len(masked)
    while k < n:
        c = masked[k]
        if c in "([{":
            d += 1
        elif c in ")]}":
            d -= 1
            if d < 0:
                return text, None
            if d == 0 and c == "}":
                rest = masked[k + 1:].lstrip()
                if not rest.startswith(";") and not rest.startswith("by") and not rest.startswith("requires"):
                    k += 1
                    break
        elif c == ";" and d == 0:
            k += 1
            break
        k += 1
    removed = text[a:k]
    repl = "".join(ch if ch == "\n" else " " for ch in removed)
    return text[:a] + repl + text[k:], " ".join(removed.split())[:200]


def run_unit(repo_root, unit_dir, out_dir, rlimit=None, timeout=900, extra_args=(), max_hint_rounds=6):
    """extract + verify; failing *hint* statements (untagged assert / lemma call that comes from the
    template, inside an extracted function) are removed and the unit is verified again, so that
    what is finally reported is a failure of a tagged clause or of an implicit safety obligation
    of the real code -- never of a proof hint."""
    res = UnitResult()
    res.unit = os.path.basename(unit_dir.rstrip("/"))
    try:
        ex, text, linemap, gen = generate(repo_root, unit_dir, out_dir)
    except ExtractError as e:
        res.undecided.append("extract: %s" % e)
        return res
    res.gen_path = gen
    res.functions = ex.functions
    res.types = ex.types
    res.rewrite_counts = ex.rewrite_counts
    res.unmatched_wraps = list(getattr(ex, "unmatched_wraps", []))
    res.trusted, missing = scan_trusted(text)
    res.hints_removed = []
    if missing:
        res.undecided.append("assumption scan: undeclared trust token(s) at generated lines %s" % [m[0] for m in missing][:8])
        return res
    extracted_names = {r["emitted_as"] for r in ex.functions}
    rounds = 0
    while True:
        _verify_text(res, text, linemap, gen, out_dir, rlimit, timeout, extra_args)
        if res.undecided:
            if getattr(ex, "unmatched_wraps", None):
                res.undecided.append("dialect adapters that no longer match the code (function verified unrewritten): %s" % ex.unmatched_wraps[:6])
            return res
        hint_fail = [f for f in res.failed if f["fn"] in extracted_names and f["kind"] in ("assert", "pre")
                     and f.get("origin") == "unit" and not f.get("tagged")]
        if not hint_fail or rounds >= max_hint_rounds:
            break
        rounds += 1
        changed = False
        for f in sorted(hint_fail, key=lambda f: -f["gen_line"]):
            text2, removed = _blank_statement(text, f["gen_line"], f["gen_col"])
            if removed:
                text = text2
                changed = True
                res.hints_removed.append({"fn": f["fn"], "where": f["where"], "stmt": removed})
        if not changed:
            break
        with open(gen, "w") as fh:
            fh.write(text)
    # failures inside template-only proof functions are tool instability, not violations
    lemma_fail = [f for f in res.failed if f["fn"] not in extracted_names]
    if lemma_fail:
        res.undecided.append("template lemma(s) not proved (repo-independent): %s" % [f["id"] for f in lemma_fail][:5])
        res.failed = [f for f in res.failed if f["fn"] in extracted_names]
    # a function verified WITHOUT one of its dialect adapters (the adapted expression changed shape) may fail only because the
    # unrewritten expression has no specification (a closure, an iterator adapter): such failures are undecided, not violations;
    # the caller then runs the unit's bounded native search in its place
    if res.unmatched_wraps and res.failed:
        fns = {w.split(": ", 1)[0].split("::")[-1].strip() for w in res.unmatched_wraps}
        demoted = [f for f in res.failed if f["fn"] in fns]
        if demoted:
            res.undecided.append("function(s) %s verified without adapter(s) %s: %d failed obligation(s) not attributable (%s)" % (
                sorted(fns), res.unmatched_wraps[:4], len(demoted), [f["id"] for f in demoted][:4]))
            res.failed = [f for f in res.failed if f["fn"] not in fns]
    return res


def _verify_text(res, text, linemap, gen, out_dir, rlimit, timeout, extra_args):
    res.obligations, res.failed, res.verified_fns = [], [], {}
    lines = text.split("\n")
    # tagged obligations
    tagged = {}
    also = {}
    for i, ln in enumerate(lines):
        m = re.search(r"//\s*@OBL\s+(\S+)", ln)
        if m:
            tagged[i + 1] = m.group(1)
            # `@ALSO C02,C08`: the clause is also an obligation of those properties (counted and reported by their checks too)
            ma = re.search(r"@ALSO\s+([\w,]+)", ln)
            if ma:
                also[m.group(1)] = [x for x in ma.group(1).split(",") if x]
    res.tagged = len(tagged)
    canary_lines = {i + 1 for i, ln in enumerate(lines) if "@CANARY" in ln}
    cmd = ["verus", gen, "--output-json", "--error-format=json", "--multiple-errors", "40", "--time", "--num-threads", "8"]
    if rlimit:
        cmd += ["--rlimit", str(rlimit)]
    cmd += list(extra_args)
    res.cmd = " ".join(cmd)
    t0 = time.time()
    try:
        p = subprocess.run(cmd, capture_output=True, text=True, timeout=timeout, cwd=out_dir)
    except subprocess.TimeoutExpired:
        res.undecided.append("verus timeout after %ds" % timeout)
        return
    res.times["wall_s"] = round(time.time() - t0, 2)
    res.raw_err = p.stderr
    try:
        js = json.loads(p.stdout)
    except Exception:
        res.undecided.append("verus produced no JSON (exit %d): %s" % (p.returncode, (p.stderr or p.stdout)[-600:]))
        return
    vr = js.get("verification-results", {})
    tm = js.get("times-ms", {})
    res.times["smt_ms"] = tm.get("smt", {}).get("total")
    res.times["total_ms"] = tm.get("total")
    for mod in tm.get("smt", {}).get("smt-run-module-times", []):
        for fb in mod.get("function-breakdown", []):
            nm = fb["function"].split("::", 1)[-1]
            res.verified_fns[nm] = {"success": fb.get("success"), "ms": fb.get("time"), "rlimit": fb.get("rlimit"), "mode": fb.get("mode:")}
    # diagnostics
    errors = []
    hard_errors = []
    for l in p.stderr.split("\n"):
        l = l.strip()
        if not l.startswith("{"):
            continue
        try:
            d = json.loads(l)
        except Exception:
            continue
        if d.get("level") != "error":
            continue
        msg = d.get("message", "")
        if msg.startswith("aborting due to"):
            continue
        kind = None
        for pat, k in VERIF_FAIL_MSGS:
            if pat in msg:
                kind = k
                break
        if kind is None:
            if any(u in msg for u in UNDECIDED_MSGS):
                res.undecided.append("verus: %s" % msg)
            else:
                hard_errors.append(msg + " @ " + ",".join("%s:%s" % (s.get("file_name"), s.get("line_start")) for s in d.get("spans", [])[:2]))
            continue
        errors.append((kind, msg, d))
    if hard_errors:
        res.undecided.append("unsupported construct / compile error: " + " | ".join(hard_errors[:4]))
        return
    if vr.get("encountered-vir-error"):
        res.undecided.append("verus VIR error")
        return
    # map failures to obligations
    failed_ids = {}
    canary_hit = False
    for kind, msg, d in errors:
        spans = d.get("spans", [])
        if any(s["line_start"] in canary_lines for s in spans):
            canary_hit = True
            continue
        # is this an rlimit-ish failure? (Verus prints a note)
        notes = " ".join(c.get("message", "") for c in d.get("children", []))
        oid = None
        pick = None
        # 1. a tagged line among the spans
        for s in spans:
            for ln in range(s["line_start"], s["line_end"] + 1):
                if ln in tagged:
                    oid = tagged[ln]
                    pick = s
        prim = [s for s in spans if s.get("is_primary")] or spans
        site = prim[0] if prim else None
        if pick is None:
            pick = site
        gen_line = site["line_start"] if site else 0
        fn_item = _enclosing_item(lines, gen_line) if site else "?"
        snippet = ""
        if site and site.get("text"):
            t = site["text"][0]
            snippet = t["text"][t["highlight_start"] - 1:t["highlight_end"] - 1] if len(site["text"]) == 1 else " ".join(x["text"].strip() for x in site["text"])
            snippet = " ".join(snippet.split())[:120]
        if oid is None and kind == "decreases" and site:
            # Verus reports a failed loop measure at the loop header: name it by the tagged `decreases` clause of that loop
            for ln in range(site["line_start"], min(len(lines), site["line_start"] + 200) + 1):
                t = lines[ln - 1].strip()
                if t.startswith("decreases"):
                    if ln in tagged:
                        oid = tagged[ln]
                    break
        if oid is None:
            # a failed precondition of a callee: name the callee clause when available
            callee = ""
            for s in spans:
                if not s.get("is_primary") and s.get("label") and "failed precondition" in s.get("label"):
                    if s.get("text"):
                        callee = " [" + " ".join(s["text"][0]["text"].split())[:80] + "]"
            oid = "%s.%s:%s%s" % (fn_item, kind, snippet, callee)
        where = None
        if site:
            org = linemap[gen_line - 1] if 0 < gen_line <= len(linemap) else None
            if org:
                where = "%s:%d" % (org[1] if org[0] == "repo" else os.path.relpath(org[1], "/verif"), org[2])
        key = oid + "@" + fn_item
        was_tagged = any(ln in tagged for s in spans for ln in range(s["line_start"], s["line_end"] + 1))
        org0 = linemap[gen_line - 1] if 0 < gen_line <= len(linemap) else None
        failed_ids[key] = {"id": oid, "fn": fn_item, "kind": kind, "status": "failed", "backend": "verus/z3",
                           "where": where, "site": snippet, "message": msg, "gen_line": gen_line,
                           "gen_col": site["column_start"] if site else 1,
                           "origin": org0[0] if org0 else None, "tagged": was_tagged}
    res.canary_rejected = canary_hit if canary_lines else None
    # obligation table: tagged clauses + one implicit-safety group per verified fn
    failed_by_id = {}
    for v in failed_ids.values():
        failed_by_id.setdefault(v["id"], v)
    for ln, oid in sorted(tagged.items()):
        if oid in failed_by_id:
            continue
        res.obligations.append({"id": oid, "fn": _enclosing_item(lines, ln), "kind": "tagged", "status": "discharged", "backend": "verus/z3", "also": also.get(oid, [])})
    impl_failed_fns = {v["fn"] for v in failed_ids.values()}
    for nm, info in res.verified_fns.items():
        short = nm.split("::")[-1]
        if short.startswith("canary"):
            continue
        st = "discharged" if info["success"] else "failed-see-clauses"
        res.obligations.append({"id": "%s.implicit" % short, "fn": short, "kind": "implicit-safety+body", "status": st,
                                "backend": "verus/z3", "ms": info["ms"], "rlimit": info["rlimit"]})
    res.failed = list(failed_by_id.values())
    for f in res.failed:
        f["also"] = also.get(f["id"], [])
    # functions that were extracted must have been verified
    for r in res.functions:
        nm = r["emitted_as"]
        if r.get("assumed_contract"):
            r["verified"] = False
            continue
        hit = [k for k in res.verified_fns if k.split("::")[-1] == nm]
        r["verified"] = bool(hit) and all(res.verified_fns[k]["success"] for k in hit)
        if not hit:
            res.undecided.append("function %s produced no verification condition" % nm)
    if canary_lines and not canary_hit:
        res.undecided.append("canary verified: unit is inconsistent (vacuous)")
    return
