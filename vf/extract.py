"""Mechanical extraction of functions / types from /repo into a single-file Verus unit.

A unit template (`units/<unit>/unit.vrs`) is Verus source with `//@` directives.  Everything
that is not a directive is copied as is (spec functions, lemmas, trusted wrappers).  The
directives copy items *verbatim* from the repository and apply only the closed list of
syntactic rewrites R1..R11 documented in DESIGN.md section 3.2; every application is counted.

Directive grammar (one per line, leading whitespace ignored):

  //@ include <file relative to the template>
  //@ fn <repo path> [<ImplType>[/<Trait>]::]<name>
        //@ ret <ident>                    name the return value   -> (ident: T)
        //@ attr <text>                    attribute line placed above the fn
        //@ rename <newname>               emit under another name (two extractions of one fn)
        //@ map <literal> => <literal>     literal substitution in code (R3/R5/R6/R10 helpers)
        //@ wrap <regex> => <replacement>  regex substitution on code (R6 method -> wrapper)
        //@ spec ... //@ end               requires/ensures/decreases clauses
        //@ loop <k> ... //@ end           invariant/decreases for the k-th loop (0-based)
        //@ after let <name>[#k] ... //@ end     proof hints anchored on a `let`
        //@ before let <name>[#k] ... //@ end
        //@ at-start ... //@ end
        //@ at-end ... //@ end             before the closing brace of the body
        //@ before-return <k> ... //@ end  before the k-th `return`
        //@ before stmt <regex>[#k] ... //@ end  before the statement whose first line matches
        //@ after stmt <regex>[#k] ... //@ end
  //@ endfn
  //@ struct <repo path> <Name> [fields a,b,c]
        //@ extra ... //@ end              additional (ghost) fields
  //@ endstruct
  //@ enum <repo path> <Name>
  //@ const <repo path> <NAME>

A lost anchor, an item that is not found (or found twice), or a rewrite whose side-effect
check fails raises ExtractError -> the check exits 2 (undecided), never an alarm.
"""
import hashlib
import os
import re

from . import rustlex as L


class ExtractError(Exception):
    pass


MUTATING = re.compile(
    r"(\+=|-=|\*=|/=|%=|<<=|>>=|\|=|&=|\^=|(?<![=!<>])=(?![=>])|"
    r"\.(push|push_back|push_front|insert|remove|pop|pop_front|pop_back|pop_first|take|clear|"
    r"retain|drain|truncate|resize|extend|append|swap|replace|send|lock|write|read|seek|"
    r"set_[a-z_]*|store|fetch_[a-z_]*|next|borrow_mut|get_mut|as_mut|iter_mut|entry)\s*\()")


def _side_effect_free(masked_args: str) -> bool:
    return MUTATING.search(masked_args) is None


def _keep_newlines(repl: str, old: str) -> str:
    """replacement text that has as many newlines as `old` (line map stays trivial)."""
    return repl + "\n" * old.count("\n")


def _split_field_commas(m):
    """commas that separate struct fields: bracket depth 0 and outside generic angle brackets"""
    d = a = 0
    res = []
    for i, c in enumerate(m):
        if c in "([{":
            d += 1
        elif c in ")]}":
            d -= 1
        elif c == "<":
            a += 1
        elif c == ">" and i > 0 and m[i - 1] not in "-=":
            a = max(0, a - 1)
        elif c == "," and d == 0 and a == 0:
            res.append(i)
    return res


class Piece:
    __slots__ = ("text", "origin")

    def __init__(self, text, origin):
        self.text = text
        self.origin = origin  # ("repo", path, first_line) or ("unit", path, first_line)


class FnSpec:
    def __init__(self, path, impl_type, impl_trait, name, tpl_line):
        self.path, self.impl_type, self.impl_trait, self.name = path, impl_type, impl_trait, name
        self.tpl_line = tpl_line
        self.ret = None
        self.rename = None
        self.attrs = []
        self.maps = []
        self.wraps = []
        self.spec = []          # list of (text, tpl_line)
        self.loops = {}
        self.anchors = []       # (kind, arg, lines)


class Extractor:
    def __init__(self, repo_root, unit_path):
        self.repo_root = repo_root
        self.unit_path = unit_path
        self.pieces = []
        self.functions = []   # evidence records
        self.types = []
        self.rewrite_counts = {}
        self.unmatched_wraps = []   # wraps / maps whose expression was not found (reported; the function is verified unrewritten)
        self.gwraps = []      # unit-wide optional wraps (applied to every function extracted after the directive)
        self._cache = {}

    # ------------------------------------------------------------------ sources
    def _load(self, rel):
        if rel not in self._cache:
            p = os.path.join(self.repo_root, rel)
            if not os.path.exists(p):
                raise ExtractError("lost anchor: file %s does not exist" % rel)
            src = open(p, encoding="utf-8").read()
            self._cache[rel] = (src, L.mask_code(src))
        return self._cache[rel]

    def _count(self, rec, rid, n=1):
        if n:
            rec["rewrites"][rid] = rec["rewrites"].get(rid, 0) + n
            self.rewrite_counts[rid] = self.rewrite_counts.get(rid, 0) + n

    # ------------------------------------------------------------------ template
    def run(self):
        self._process_file(self.unit_path)
        return self

    def _process_file(self, path):
        lines = open(path, encoding="utf-8").read().split("\n")
        i = 0
        buf, buf_start = [], 1

        def flush():
            nonlocal buf
            if buf:
                self.pieces.append(Piece("\n".join(buf) + "\n", ("unit", path, buf_start)))
                buf = []

        while i < len(lines):
            ln = lines[i]
            s = ln.strip()
            if not s.startswith("//@"):
                if not buf:
                    buf_start = i + 1
                buf.append(ln)
                i += 1
                continue
            flush()
            d = s[3:].strip()
            if d.startswith("include "):
                inc = os.path.join(os.path.dirname(path), d[8:].strip())
                self._process_file(inc)
                i += 1
            elif d.startswith("gwrap "):
                a, b = d[6:].split("=>")
                self.gwraps.append((a.strip(), b.strip()))
                i += 1
            elif d.startswith("fn "):
                i = self._parse_fn(path, lines, i)
            elif d.startswith("struct "):
                i = self._parse_struct(path, lines, i)
            elif d.startswith("enum "):
                m = re.match(r"enum\s+(\S+)\s+(\w+)$", d)
                self._emit_enum(m.group(1), m.group(2))
                i += 1
            elif d.startswith("const "):
                m = re.match(r"const\s+(\S+)\s+(\w+)$", d)
                self._emit_const(m.group(1), m.group(2))
                i += 1
            elif d.startswith("trait "):
                m = re.match(r"trait\s+(\S+)\s+(\w+)$", d)
                self._emit_trait(m.group(1), m.group(2))
                i += 1
            else:
                raise ExtractError("%s:%d unknown directive %r" % (path, i + 1, d))
        flush()

    def _parse_block(self, lines, i):
        """collect lines until `//@ end`; returns (block_lines_with_lineno, next_i)"""
        out = []
        while True:
            if i >= len(lines):
                raise ExtractError("unterminated directive block")
            s = lines[i].strip()
            if s.startswith("//@") and s[3:].strip() == "end":
                return out, i + 1
            out.append((lines[i], i + 1))
            i += 1

    def _parse_fn(self, path, lines, i):
        d = lines[i].strip()[3:].strip()
        m = re.match(r"fn\s+(\S+)\s+(?:(\w+)(?:/(\w+))?::)?(\w+)$", d)
        if not m:
            raise ExtractError("%s:%d bad fn directive" % (path, i + 1))
        fs = FnSpec(m.group(1), m.group(2), m.group(3), m.group(4), i + 1)
        i += 1
        while True:
            if i >= len(lines):
                raise ExtractError("%s: unterminated fn directive" % path)
            s = lines[i].strip()
            if not s.startswith("//@"):
                if s == "":
                    i += 1
                    continue
                raise ExtractError("%s:%d text outside a block inside fn directive" % (path, i + 1))
            d = s[3:].strip()
            if d == "endfn":
                i += 1
                break
            if d.startswith("ret "):
                fs.ret = d[4:].strip()
                i += 1
            elif d.startswith("rename "):
                fs.rename = d[7:].strip()
                i += 1
            elif d.startswith("attr "):
                fs.attrs.append(d[5:].strip())
                i += 1
            elif d == "assume-contract":
                # signature copied from the repo, body NOT verified here: `{ unimplemented!() }` under external_body
                fs.attrs.append("#[verifier::external_body]")
                fs.sig_only = True
                i += 1
            elif d.startswith("map "):
                a, b = d[4:].split("=>")
                fs.maps.append((a.strip(), b.strip()))
                i += 1
            elif d.startswith("wrap "):
                a, b = d[5:].split("=>")
                fs.wraps.append((a.strip(), b.strip()))
                i += 1
            elif d == "spec":
                blk, i = self._parse_block(lines, i + 1)
                fs.spec = blk
            elif d.startswith("specfile "):
                sp = os.path.join(os.path.dirname(path), d[9:].strip())
                fs.spec = [(t, k + 1) for k, t in enumerate(open(sp).read().rstrip("\n").split("\n"))]
                fs.spec_path = sp
                i += 1
            elif d.startswith("loop "):
                k = int(d[5:].strip())
                blk, i = self._parse_block(lines, i + 1)
                fs.loops[k] = blk
            elif re.match(r"(after|before) (let|stmt) ", d) or d in ("at-start", "at-end") or d.startswith("before-return"):
                blk, i = self._parse_block(lines, i + 1)
                fs.anchors.append((d, blk))
            else:
                raise ExtractError("%s:%d unknown fn sub-directive %r" % (path, i + 1, d))
        self._emit_fn(path, fs)
        return i

    def _parse_struct(self, path, lines, i):
        d = lines[i].strip()[3:].strip()
        m = re.match(r"struct\s+(\S+)\s+(\w+)(?:\s+fields\s+(.*))?$", d)
        if not m:
            raise ExtractError("%s:%d bad struct directive" % (path, i + 1))
        rel, name, fields = m.group(1), m.group(2), m.group(3)
        fields = [f.strip() for f in fields.split(",")] if fields else None
        extra = []
        attrs = []
        i += 1
        while True:
            s = lines[i].strip()
            if not s.startswith("//@"):
                if s == "":
                    i += 1
                    continue
                raise ExtractError("%s:%d text inside struct directive" % (path, i + 1))
            d = s[3:].strip()
            if d == "endstruct":
                i += 1
                break
            if d == "extra":
                extra, i = self._parse_block(lines, i + 1)
            elif d.startswith("attr "):
                attrs.append(d[5:].strip())
                i += 1
            else:
                raise ExtractError("%s:%d unknown struct sub-directive" % (path, i + 1))
        self._emit_struct(path, rel, name, fields, extra, attrs)
        return i

    # ------------------------------------------------------------------ emitters
    def _strip_attrs_and_docs(self, text, masked, rec):
        """R8: drop doc comments, #[derive], #[cfg_attr], #[allow], #[serde..] attribute lines inside an item."""
        out = []
        n = 0
        for ln_t, ln_m in zip(text.split("\n"), masked.split("\n")):
            st = ln_t.strip()
            if st.startswith("///") or st.startswith("//!"):
                out.append("")
                n += 1
            elif re.match(r"#\[(derive|cfg_attr|allow|serde|repr|doc)\b", ln_m.strip()):
                out.append("")
                n += 1
            else:
                out.append(ln_t)
        self._count(rec, "R8", n)
        return "\n".join(out)

    def _emit_enum(self, rel, name):
        src, masked = self._load(rel)
        try:
            loc = L.find_item(src, masked, "enum", name)
        except LookupError as e:
            raise ExtractError("lost anchor: %s" % e)
        rec = {"kind": "enum", "path": rel, "name": name, "lines": [L.line_of(src, loc.start), L.line_of(src, loc.end - 1)], "rewrites": {}}
        text = src[loc.start:loc.end]
        mtext = masked[loc.start:loc.end]
        text2 = self._strip_attrs_and_docs(text, mtext, rec)
        text2 = "pub " + re.sub(r"^pub(\s*\([^)]*\))?\s+", "", text2.lstrip("\n"))
        self._count(rec, "R7")
        rec["sha256"] = hashlib.sha256(text.encode()).hexdigest()
        self.types.append(rec)
        self.pieces.append(Piece("#[derive(Clone, Copy, PartialEq, Eq, Structural)]\n" if "{" in text and not re.search(r"\(", mtext[mtext.find("{"):]) else "", ("unit", self.unit_path, 0)))
        self.pieces.append(Piece(text2 + "\n", ("repo", rel, L.line_of(src, loc.start))))

    def _emit_trait(self, rel, name):
        """trait declaration copied verbatim (method signatures only; provided bodies are kept as they are)"""
        src, masked = self._load(rel)
        try:
            loc = L.find_item(src, masked, "trait", name)
        except LookupError as e:
            raise ExtractError("lost anchor: %s" % e)
        rec = {"kind": "trait", "path": rel, "name": name, "lines": [L.line_of(src, loc.start), L.line_of(src, loc.end - 1)], "rewrites": {}}
        text = src[loc.start:loc.end]
        rec["sha256"] = hashlib.sha256(text.encode()).hexdigest()
        text2 = self._strip_attrs_and_docs(text, masked[loc.start:loc.end], rec)
        text2 = "pub " + re.sub(r"^pub(\s*\([^)]*\))?\s+", "", text2.lstrip("\n"))
        self._count(rec, "R7")
        self.types.append(rec)
        self.pieces.append(Piece(text2 + "\n", ("repo", rel, L.line_of(src, loc.start))))

    def _emit_const(self, rel, name):
        src, masked = self._load(rel)
        try:
            loc = L.find_const(src, masked, name)
        except LookupError as e:
            raise ExtractError("lost anchor: %s" % e)
        rec = {"kind": "const", "path": rel, "name": name, "lines": [L.line_of(src, loc.start), L.line_of(src, loc.end - 1)], "rewrites": {}}
        text = src[loc.start:loc.end]
        rec["sha256"] = hashlib.sha256(text.encode()).hexdigest()
        if re.match(r"pub(\s*\([^)]*\))?\s+", text):
            text = re.sub(r"^pub(\s*\([^)]*\))?\s+", "", text)
        text = "pub " + text   # R7: visibility normalised to pub (consts are emitted inside helper modules)
        self._count(rec, "R7")
        self.types.append(rec)
        self.pieces.append(Piece(text + "\n", ("repo", rel, L.line_of(src, loc.start))))

    def _emit_struct(self, tpl_path, rel, name, fields, extra, attrs):
        src, masked = self._load(rel)
        try:
            loc = L.find_item(src, masked, "struct", name)
        except LookupError as e:
            raise ExtractError("lost anchor: %s" % e)
        rec = {"kind": "struct", "path": rel, "name": name, "lines": [L.line_of(src, loc.start), L.line_of(src, loc.end - 1)], "rewrites": {}}
        whole = src[loc.start:loc.end]
        rec["sha256"] = hashlib.sha256(whole.encode()).hexdigest()
        header = src[loc.start:loc.body_open]
        header = "pub " + re.sub(r"^pub(\s*\([^)]*\))?\s+", "", header)
        self._count(rec, "R7")
        body = src[loc.body_open + 1:loc.body_close]
        mbody = masked[loc.body_open + 1:loc.body_close]
        # split fields at top-level commas
        commas = _split_field_commas(mbody)
        segs = []
        a = 0
        for c in commas + [len(mbody)]:
            segs.append((a, c))
            a = c + 1
        kept, dropped, present = [], [], []
        for (a, b) in segs:
            seg_t, seg_m = body[a:b], mbody[a:b]
            if not seg_m.strip():
                continue
            cfg_otel = re.search(r'#\[cfg\(feature\s*=\s*"\s*"\)\]', seg_m) is not None or "opentelemetry" in seg_t and "#[cfg(feature" in seg_t
            # strip attributes (possibly spanning several lines), doc comments and plain comments
            seg_clean = []
            attr_depth = 0
            for lt, lm in zip(seg_t.split("\n"), seg_m.split("\n")):
                if attr_depth > 0:
                    attr_depth += lm.count("[") - lm.count("]")
                    continue
                if lm.strip().startswith("#["):
                    attr_depth = lm.count("[") - lm.count("]")
                    continue
                if lt.strip().startswith("///") or not lm.strip():
                    continue   # doc comment, or a line that is blank once comments are masked
                seg_clean.append(lm if "//" in lt and "//" not in lm else lt)
            ft = "\n".join(seg_clean).strip()
            fm = re.match(r"(?:pub(?:\s*\([^)]*\))?\s+)?(\w+)\s*:", ft)
            if not fm:
                raise ExtractError("struct %s: cannot parse field %r" % (name, ft[:40]))
            fname = fm.group(1)
            present.append(fname)
            if cfg_otel:
                dropped.append(fname)
                self._count(rec, "R8")
                continue
            if fields is not None and fname not in fields:
                dropped.append(fname)
                continue
            ft = re.sub(r"^pub(\s*\([^)]*\))?\s+", "", ft)
            kept.append((ft, L.line_of(src, loc.body_open + 1 + a + (len(seg_t) - len(seg_t.lstrip())))))
        if fields is not None:
            for f in fields:
                if f not in present:
                    raise ExtractError("lost anchor: struct %s has no field %s" % (name, f))
            self._count(rec, "R9", len(dropped))
        rec["fields_kept"] = [k[0].split(":")[0].strip() for k in kept]
        rec["fields_dropped"] = dropped
        self.types.append(rec)
        for a in attrs:
            self.pieces.append(Piece(a + "\n", ("unit", tpl_path, 0)))
        self.pieces.append(Piece(header.rstrip() + " {\n", ("repo", rel, L.line_of(src, loc.start))))
        for ft, ln in kept:
            self.pieces.append(Piece("    pub " + ft + ",\n", ("repo", rel, ln)))
        for t, ln in extra:
            self.pieces.append(Piece(t + "\n", ("unit", tpl_path, ln)))
        self.pieces.append(Piece("}\n", ("repo", rel, L.line_of(src, loc.body_close))))

    # ------------------------------------------------------------------ functions
    def _rewrite_body(self, text, rec, fs):
        """apply R1..R8 on code (positions found on the masked text); newline count preserved."""

        def apply(find, build):
            nonlocal text
            pos = 0
            guard = 0
            while True:
                masked = L.mask_code(text)
                hit = find(masked, pos)
                if hit is None:
                    return
                a, b = hit
                repl = build(text[a:b], masked[a:b])
                text = text[:a] + _keep_newlines(repl, text[a:b]) + text[b:]
                pos = a + len(repl)
                guard += 1
                if guard > 10000:
                    raise ExtractError("rewrite loop")

        # R8: #[cfg(feature = "opentelemetry")] <statement>  and  #[cfg(not(feature = ...))] attr
        def find_cfg(masked, pos):
            m = re.compile(r'#\[cfg\(feature\s*=\s*"[^"]*"\)\]').search(masked, pos)
            if not m:
                return None
            # mask blanks string contents, so check on the real text
            if "opentelemetry" not in text[m.start():m.end()]:
                raise ExtractError("unsupported cfg attribute %r" % text[m.start():m.end()])
            i = m.end()
            d = 0
            while i < len(masked):
                c = masked[i]
                if c in "([{":
                    d += 1
                elif c in ")]}":
                    d -= 1
                    if d < 0:
                        break
                    if d == 0 and c == "}":
                        # block-like statement ends here unless followed by ; or an else/method chain
                        rest = masked[i + 1:].lstrip()
                        if rest.startswith(";"):
                            i = masked.index(";", i)
                        elif rest.startswith(".") or rest.startswith("else"):
                            i += 1
                            continue
                        i += 1
                        break
                elif c in ";," and d == 0:
                    i += 1
                    break
                i += 1
            return (m.start(), i)

        def build_cfg(t, m):
            self._count(rec, "R8")
            return ""

        apply(find_cfg, build_cfg)

        def find_cfgnot(masked, pos):
            m = re.compile(r'#\[cfg\(not\(feature\s*=\s*"[^"]*"\)\)\]').search(masked, pos)
            return (m.start(), m.end()) if m else None

        apply(find_cfgnot, lambda t, m: (self._count(rec, "R8"), "")[1])

        # R1: logging statements
        def find_log(masked, pos):
            m = re.compile(r"\blog::(trace|debug|info|warn|error)!\s*\(").search(masked, pos)
            if not m:
                return None
            close = L.match_close(masked, m.end() - 1)
            if not _side_effect_free(masked[m.end():close]):
                raise ExtractError("R1: logging argument is not side-effect free: %r" % text[m.start():close + 1][:80])
            end = close + 1
            k = end
            while k < len(masked) and masked[k] in " \t":
                k += 1
            if k < len(masked) and masked[k] == ";":
                return (m.start(), k + 1)
            return (m.start(), end)

        def build_log(t, m):
            self._count(rec, "R1")
            return "" if m.rstrip().endswith(";") else "{}"

        apply(find_log, build_log)

        # println! is logging too (objectwriterfs)
        # R2: FluteError::new(...)
        def find_err(masked, pos):
            m = re.compile(r"\bFluteError::new\s*\(").search(masked, pos)
            if not m:
                return None
            close = L.match_close(masked, m.end() - 1)
            if not _side_effect_free(masked[m.end():close]):
                raise ExtractError("R2: error argument is not side-effect free")
            return (m.start(), close + 1)

        def build_err(t, m):
            self._count(rec, "R2")
            return "FluteError::stub()"

        apply(find_err, build_err)

        # R2 (cont.): `.map_err(|_| FluteError::stub())` -> `.map_err_stub()` (Verus rejects `_` closure parameters)
        def find_maperr(masked, pos):
            m = re.compile(r"\.map_err\(\s*\|\s*\w*\s*\|\s*FluteError::stub\(\)\s*\)").search(masked, pos)
            return (m.start(), m.end()) if m else None

        apply(find_maperr, lambda t, m: (self._count(rec, "R2"), ".map_err_stub()")[1])

        # R2 (cont.): `&format!(..)` passed as a description string -> "" (text only)
        def find_fmt(masked, pos):
            m = re.compile(r"&\s*format!\s*\(").search(masked, pos)
            if not m:
                return None
            close = L.match_close(masked, m.end() - 1)
            if not _side_effect_free(masked[m.end():close]):
                raise ExtractError("R2: format! argument is not side-effect free")
            return (m.start(), close + 1)

        apply(find_fmt, lambda t, m: (self._count(rec, "R2"), '""')[1])

        # R4: assert! / debug_assert!
        def find_assert(masked, pos):
            m = re.compile(r"\b(debug_assert|assert)!\s*\(").search(masked, pos)
            if not m:
                return None
            close = L.match_close(masked, m.end() - 1)
            end = close + 1
            k = end
            while k < len(masked) and masked[k] in " \t":
                k += 1
            if k < len(masked) and masked[k] == ";":
                end = k + 1
            return (m.start(), end)

        def build_assert(t, m):
            self._count(rec, "R4")
            o = m.index("(")
            c = L.match_close(m, o)
            inner_t, inner_m = t[o + 1:c], m[o + 1:c]
            commas = L.split_top_commas(inner_m)
            if commas:
                inner_t = inner_t[:commas[0]]
            inner_t = " ".join(inner_t.split())
            return "{ let verif_c = " + inner_t + "; assert(verif_c); }"

        apply(find_assert, build_assert)

        # R3 default + explicit maps
        for a, b in fs.maps:
            n = text.count(a)
            if n == 0:
                self._count(rec, "unmatched-map:" + a, 1)
                self.unmatched_wraps.append("%s: map %s" % (fs.rename or fs.name, a))
                continue
            text = text.replace(a, b)
            self._count(rec, "map:" + a, n)
        for a, b in (("num_integer::div_ceil(", "ni_div_ceil("), ("num_integer::div_floor(", "ni_div_floor(")):
            n = text.count(a)
            if n:
                text = text.replace(a, b)
                self._count(rec, "R3", n)
        for rx, repl, optional in [(a, b, False) for a, b in fs.wraps] + [(a, b, True) for a, b in self.gwraps]:
            masked = L.mask_code(text)
            ms = list(re.finditer(rx, masked))
            if not ms:
                if not optional:
                    # a wrap is a dialect adapter, not an anchor: when the expression it adapts is gone (the code changed) the
                    # function is verified as it stands - Verus either takes it (decided) or rejects the construct (undecided)
                    self._count(rec, "unmatched-wrap:" + rx, 1)
                    self.unmatched_wraps.append("%s: %s" % (fs.rename or fs.name, rx))
                continue
            for m in reversed(ms):
                # the regex ran on masked text; groups are taken from the *real* text at the same offsets
                def grp(k, m=m):
                    return text[m.start(k):m.end(k)]
                new = re.sub(r"\\(\d)", lambda g: grp(int(g.group(1))), repl)
                text = text[:m.start()] + _keep_newlines(new, text[m.start():m.end()]) + text[m.end():]
            self._count(rec, "wrap:" + rx, len(ms))
        return text

    def _emit_fn(self, tpl_path, fs):
        src, masked = self._load(fs.path)
        try:
            loc = L.find_fn(src, masked, fs.name, fs.impl_type, fs.impl_trait)
        except LookupError as e:
            raise ExtractError("lost anchor: %s in %s" % (e, fs.path))
        first_line = L.line_of(src, loc.start)
        rec = {"kind": "fn", "path": fs.path, "impl": fs.impl_type, "trait": fs.impl_trait, "name": fs.name,
               "emitted_as": fs.rename or fs.name,
               "lines": [first_line, L.line_of(src, loc.end - 1)], "rewrites": {}}
        whole = src[loc.start:loc.end]
        rec["sha256"] = hashlib.sha256(whole.encode()).hexdigest()
        sig = src[loc.start:loc.body_open]
        body = src[loc.body_open:loc.end]
        # --- signature
        msig = L.mask_code(sig)
        m = re.match(r"\s*pub(\s*\([^)]*\))?\s+", msig)
        if m:
            sig = sig[m.end():]
        sig = "pub " + sig   # R7: visibility normalised to pub
        self._count(rec, "R7")
        if fs.rename:
            sig = re.sub(r"\bfn\s+" + re.escape(fs.name) + r"\b", "fn " + fs.rename, sig, count=1)
        if fs.impl_trait is not None:
            rec["note"] = "trait-impl method emitted as inherent method (dyn dispatch not modelled)"
        if fs.ret:
            msig = L.mask_code(sig)
            # '->' at bracket depth 0
            d, k, arrow = 0, 0, -1
            while k < len(msig) - 1:
                c = msig[k]
                if c in "([":
                    d += 1
                elif c in ")]":
                    d -= 1
                elif c == "-" and msig[k + 1] == ">" and d == 0:
                    arrow = k
                k += 1
            if arrow < 0:
                raise ExtractError("fn %s: no return type to name" % fs.name)
            wm = re.search(r"\bwhere\b", msig[arrow:])
            tend = arrow + wm.start() if wm else len(sig)
            rty = sig[arrow + 2:tend].strip()
            nl = sig[arrow + 2:tend].count("\n")
            sig = sig[:arrow] + "-> (" + fs.ret + ": " + " ".join(rty.split()) + ")" + "\n" * nl + " " + sig[tend:]
        # --- body rewrites (newline-preserving)
        if getattr(fs, "sig_only", False):
            body = "{ unimplemented!() }" + "\n" * body.count("\n")
            rec["body_dropped"] = True
        body = self._rewrite_body(body, rec, fs)
        sig_nl = sig.count("\n")
        # --- insertion points in body
        mbody = L.mask_code(body)
        inserts = []  # (offset, [(text, tpl_line)])

        def stmt_end(pos):
            """offset just after the ';' that ends the statement starting at pos"""
            d, k = 0, pos
            while k < len(mbody):
                c = mbody[k]
                if c in "([{":
                    d += 1
                elif c in ")]}":
                    d -= 1
                    if d < 0:
                        raise ExtractError("statement end not found")
                elif c == ";" and d == 0:
                    return k + 1
                k += 1
            raise ExtractError("statement end not found")

        def line_start(pos):
            j = mbody.rfind("\n", 0, pos)
            return j + 1

        # loops in order of appearance
        loop_pos = []
        for m in re.finditer(r"\b(while|loop|for)\b", mbody):
            # skip `for` in `impl X for Y` / closures cannot appear in a body; accept
            d, k = 0, m.end()
            while k < len(mbody):
                c = mbody[k]
                if c in "([":
                    d += 1
                elif c in ")]":
                    d -= 1
                elif c == "{" and d == 0:
                    break
                k += 1
            loop_pos.append(k)
        for k, blk in fs.loops.items():
            if k >= len(loop_pos):
                raise ExtractError("lost anchor: fn %s has no loop #%d" % (fs.name, k))
            inserts.append((loop_pos[k], blk, True))
        rec["loops"] = len(loop_pos)
        if len(loop_pos) and not fs.loops and not any("exec_allows_no_decreases_clause" in a for a in fs.attrs):
            pass
        for d, blk in fs.anchors:
            mm = re.match(r"(after|before) let (\w+)(?:#(\d+))?$", d)
            if mm:
                where, nm, k = mm.group(1), mm.group(2), int(mm.group(3) or 0)
                hits = [x for x in re.finditer(r"\blet\s+(?:mut\s+)?" + re.escape(nm) + r"\b", mbody)]
                if k >= len(hits):
                    raise ExtractError("lost anchor: `let %s`#%d in fn %s" % (nm, k, fs.name))
                p = hits[k].start()
                off = stmt_end(p) if where == "after" else line_start(p)
                inserts.append((off, blk, False))
                continue
            mm = re.match(r"(after|before) stmt (.+?)(?:#(\d+|last))?$", d)
            if mm:
                where, rx = mm.group(1), mm.group(2)
                hits = [x for x in re.finditer(rx, mbody)]
                k = (len(hits) - 1 if hits else 0) if mm.group(3) == "last" else int(mm.group(3) or 0)
                if k >= len(hits):
                    raise ExtractError("lost anchor: stmt /%s/#%d in fn %s" % (rx, k, fs.name))
                p = hits[k].start()
                off = stmt_end(p) if where == "after" else line_start(p)
                inserts.append((off, blk, False))
                continue
            if d == "at-start":
                inserts.append((1, blk, False))
                continue
            if d == "at-end":
                inserts.append((len(body) - 1, blk, False))
                continue
            mm = re.match(r"before-return\s+(\d+)$", d)
            if mm:
                k = int(mm.group(1))
                hits = [x for x in re.finditer(r"\breturn\b", mbody)]
                if k >= len(hits):
                    raise ExtractError("lost anchor: return #%d in fn %s" % (k, fs.name))
                inserts.append((line_start(hits[k].start()), blk, False))
                continue
            raise ExtractError("bad anchor directive %r" % d)
        inserts.sort(key=lambda t: t[0])
        # --- emit
        self.functions.append(rec)
        rec["gen_line_start"] = None  # filled by render()
        if fs.impl_type:
            self.pieces.append(Piece("impl %s {\n" % fs.impl_type, ("unit", tpl_path, fs.tpl_line)))
        for a in fs.attrs:
            self.pieces.append(Piece(a + "\n", ("unit", tpl_path, fs.tpl_line)))
        p = Piece(sig.rstrip() + "\n", ("repo", fs.path, first_line))
        p_fn_marker = ("fnstart", rec)
        self.pieces.append(Piece("", p_fn_marker))
        self.pieces.append(p)
        assumed = any("external_body" in a for a in fs.attrs)
        rec["assumed_contract"] = assumed
        for t, ln in fs.spec:
            if assumed:
                t = re.sub(r"//\s*@OBL\s+\S+", "// (proved in its own unit)", t)
            self.pieces.append(Piece(t + "\n", ("unit", getattr(fs, "spec_path", tpl_path), ln)))
        body_line = L.line_of(src, loc.body_open)
        cur = 0
        for off, blk, is_loop in inserts:
            chunk = body[cur:off]
            if chunk:
                self.pieces.append(Piece(chunk if chunk.endswith("\n") else chunk + "\n", ("repo", fs.path, body_line + body[:cur].count("\n"))))
            for t, ln in blk:
                self.pieces.append(Piece(t + "\n", ("unit", tpl_path, ln)))
            cur = off
        chunk = body[cur:]
        self.pieces.append(Piece(chunk + "\n", ("repo", fs.path, body_line + body[:cur].count("\n"))))
        self.pieces.append(Piece("", ("fnend", rec)))
        if fs.impl_type:
            self.pieces.append(Piece("}\n", ("unit", tpl_path, fs.tpl_line)))

    # ------------------------------------------------------------------ output
    def render(self):
        """returns (text, linemap) where linemap[i] = origin of generated line i+1"""
        out_lines = []
        linemap = []
        for p in self.pieces:
            if p.origin[0] == "fnstart":
                p.origin[1]["gen_line_start"] = len(out_lines) + 1
                continue
            if p.origin[0] == "fnend":
                p.origin[1]["gen_line_end"] = len(out_lines)
                continue
            if p.text == "":
                continue
            t = p.text[:-1] if p.text.endswith("\n") else p.text
            for k, ln in enumerate(t.split("\n")):
                out_lines.append(ln)
                kind, path, first = p.origin
                linemap.append((kind, path, first + k if first else 0))
        return "\n".join(out_lines) + "\n", linemap
