"""Kani in place: harness modules are appended to a byte-identical scratch copy of /repo."""
import os
import re
import subprocess
import time

from . import common as C

HARNESS_RE = re.compile(r"//\s*@HARNESS\s+(.*)")


def module_path(target_rel):
    p = target_rel
    if p.startswith("src/"):
        p = p[4:]
    p = p[:-3] if p.endswith(".rs") else p
    parts = [x for x in p.split("/") if x]
    if parts and parts[-1] in ("mod", "lib"):
        parts = parts[:-1]
    return "::".join(parts)


def parse_harness_file(path, target_rel=None):
    """returns list of dict(id, fn, tier, kind, props, bound, timeout)"""
    out = []
    modname = "verif_kani"
    mm = re.search(r"mod\s+(verif_kani\w*)", open(path).read())
    if mm:
        modname = mm.group(1)
    prefix = (module_path(target_rel) + "::" if target_rel and module_path(target_rel) else "") + modname + "::"
    lines = open(path).read().split("\n")
    for i, ln in enumerate(lines):
        m = HARNESS_RE.search(ln)
        if not m:
            continue
        kv = dict(re.findall(r'(\w+)=("[^"]*"|\S+)', m.group(1)))
        kv = {k: v.strip('"') for k, v in kv.items()}
        fn = None
        for k in range(i + 1, min(len(lines), i + 12)):
            mm = re.match(r"\s*(?:pub\s+)?fn\s+(\w+)", lines[k])
            if mm:
                fn = mm.group(1)
                break
        if fn is None:
            raise RuntimeError("%s:%d @HARNESS without fn" % (path, i + 1))
        out.append({"id": kv.get("id", fn), "fn": fn, "tier": kv.get("tier", "quick"), "kind": kv.get("kind", "K"),
                    "props": kv.get("props", "").split(","), "bound": kv.get("bound"), "timeout": int(kv.get("timeout", "900")),
                    "file": path, "fq": prefix + fn})
    return out


def prepare_copy(tag, appends):
    """appends: {repo relative path: harness file}.  Returns (copy_dir, stats)"""
    d = C.repo_copy(tag)
    stats = {"files_touched": 0, "lines_added": 0, "lines_removed_or_changed": 0}
    for rel, hfile in appends.items():
        p = os.path.join(d, rel)
        orig = open(os.path.join(C.REPO, rel)).read()
        cur = open(p).read()
        if "mod verif_kani" in cur:
            continue
        if "#[cfg(kani)]" not in open(hfile).read():
            raise RuntimeError("harness file %s must guard its module with #[cfg(kani)]" % hfile)
        body = open(hfile).read()
        add = "\n" + body + "\n"   # the harness file carries its own `#[cfg(kani)] mod verif_kani { .. }`
        with open(p, "w") as f:
            f.write(orig + add)
        new = open(p).read()
        if not new.startswith(orig):
            stats["lines_removed_or_changed"] += 1
        stats["files_touched"] += 1
        stats["lines_added"] += add.count("\n")
    lock = os.path.join(C.REPO, "Cargo.lock")
    if os.path.exists(lock):
        subprocess.run(["cp", lock, os.path.join(d, "Cargo.lock")])
    return d, stats


def run_harnesses(copy_dir, harnesses, jobs=16, extra_flags=()):
    """Run each harness as its own cargo-kani invocation (parallel up to `jobs`, the crate
    compile is serialised by cargo's target lock).  Returns list of result dicts."""
    from concurrent.futures import ThreadPoolExecutor
    target = os.path.join(C.CACHE, "kani-target")
    os.makedirs(target, exist_ok=True)

    def one(h):
        cmd = ["cargo", "kani", "--lib", "--target-dir", target, "-Z", "stubbing", "-Z", "function-contracts",
               "--harness", h["fq"], "--exact"] + list(extra_flags)
        t0 = time.time()
        try:
            p = subprocess.run(cmd, cwd=copy_dir, env=C.offline_env(), capture_output=True, text=True, timeout=h["timeout"])
            out = p.stdout + "\n" + p.stderr
            rc = p.returncode
        except subprocess.TimeoutExpired as e:
            out = (e.stdout or b"").decode(errors="replace") if isinstance(e.stdout, bytes) else (e.stdout or "")
            rc = -9
        r = parse_output(out)
        r.update({"harness": h, "rc": rc, "wall_s": round(time.time() - t0, 1), "cmd": " ".join(cmd), "raw_tail": out[-3000:]})
        if rc == -9:
            r["status"] = "timeout"
        return r

    # all in parallel; cargo's target-directory lock serialises the (short) crate compile
    if not harnesses:
        return []
    with ThreadPoolExecutor(max_workers=max(1, min(jobs, 14))) as ex:
        return list(ex.map(one, harnesses))


def parse_output(out):
    checks = []
    cur = None
    for ln in out.split("\n"):
        m = re.match(r"Check (\d+): (\S+)", ln)
        if m:
            cur = {"name": m.group(2)}
            checks.append(cur)
            continue
        if cur is not None:
            m = re.match(r"\s*- Status: (\w+)", ln)
            if m:
                cur["status"] = m.group(1)
            m = re.match(r'\s*- Description: "(.*)"', ln)
            if m:
                cur["desc"] = m.group(1)
            m = re.match(r"\s*- Location: (.*)", ln)
            if m:
                cur["loc"] = m.group(1)
    status = "unknown"
    if "VERIFICATION:- SUCCESSFUL" in out:
        status = "success"
    elif "VERIFICATION:- FAILED" in out:
        status = "failed"
    elif "error: internal compiler error" in out or "error[" in out or "error:" in out:
        status = "error"
    failed = [c for c in checks if c.get("status") in ("FAILURE",)]
    unsat_covers = [c for c in checks if c.get("status") in ("UNSATISFIABLE", "UNREACHABLE") and ".cover." in c["name"]]
    undet = [c for c in checks if c.get("status") == "UNDETERMINED"]
    stubs = re.findall(r"- Stub: (.*)", out)
    m = re.search(r"Verification Time: ([\d.]+)s", out)
    return {"status": status, "n_checks": len([c for c in checks if ".cover." not in c["name"]]), "failed_checks": failed,
            "covers": len([c for c in checks if ".cover." in c["name"]]), "unsat_covers": unsat_covers,
            "undetermined": undet, "stubs": stubs, "solver_s": float(m.group(1)) if m else None}


def concrete_playback(copy_dir, h):
    """re-run a failed harness with concrete playback; returns list of (check description, [byte vectors])
    for the failing (non-cover) checks"""
    target = os.path.join(C.CACHE, "kani-target")
    cmd = ["cargo", "kani", "--lib", "--target-dir", target, "-Z", "stubbing", "-Z", "function-contracts", "-Z", "concrete-playback",
           "--concrete-playback=print", "--harness", h["fq"], "--exact"]
    try:
        p = subprocess.run(cmd, cwd=copy_dir, env=C.offline_env(), capture_output=True, text=True, timeout=h["timeout"])
    except subprocess.TimeoutExpired:
        return []
    res = []
    for m in re.finditer(r"```\n(.*?)```", p.stdout, re.S):
        t = m.group(1)
        cm = re.search(r"Check for `(\w+)`: \"(.*?)\"", t)
        if not cm or cm.group(1) == "cover":
            continue
        vals = []
        for vm in re.finditer(r"vec!\[([\d,\s]*)\]", t.split("concrete_vals", 1)[1]):
            body = vm.group(1).strip()
            vals.append([int(x) for x in body.split(",") if x.strip()] if body else [])
        res.append((cm.group(2), vals))
    return res


def body_params(hfile, fn):
    """parameter list of the shared body `h_<fn>` and the integer constants of the file"""
    src = open(hfile).read()
    consts = {k: int(v) for k, v in re.findall(r"const\s+(\w+)\s*:\s*usize\s*=\s*(\d+)\s*;", src)}
    m = re.search(r"fn\s+h_" + re.escape(fn) + r"\s*\((.*?)\)\s*(?:->[^{]*)?\{", src, re.S)
    if not m:
        return None, consts
    params = []
    for part in re.split(r",(?![^\[]*\])", m.group(1)):
        part = part.strip()
        if not part:
            continue
        nm, ty = part.split(":", 1)
        params.append((nm.strip(), ty.strip()))
    return params, consts


SIZES = {"u8": 1, "u16": 2, "u32": 4, "u64": 8, "u128": 16, "usize": 8, "i32": 4, "i64": 8, "bool": 1}


def decode_playback(vals, params, consts):
    """-> (list of rust literals, dict for JSON) or None when the vector shapes do not fit"""
    lits, js = [], {}
    k = 0
    for nm, ty in params:
        am = re.match(r"\[\s*u8\s*;\s*(\w+)\s*\]", ty)
        if am:
            n = consts.get(am.group(1)) if not am.group(1).isdigit() else int(am.group(1))
            if n is None or k + n > len(vals):
                return None
            bs = []
            for v in vals[k:k + n]:
                if len(v) != 1:
                    return None
                bs.append(v[0])
            k += n
            lits.append("[" + ",".join(str(b) for b in bs) + "]")
            js[nm] = bytes(bs).hex()
            continue
        if ty not in SIZES or k >= len(vals) or len(vals[k]) != SIZES[ty]:
            return None
        v = int.from_bytes(bytes(vals[k]), "little")
        k += 1
        if ty == "bool":
            lits.append("true" if v else "false")
            js[nm] = bool(v)
        else:
            lits.append("%d%s" % (v, ty))
            js[nm] = str(v) if v > 2**53 else v
    return lits, js


def native_replay(tag, appends, target_rel, h, lits, timeout=1500):
    """run the shared harness body natively (cargo test, debug profile) with concrete arguments.
    returns (reproduced: bool, excerpt, cmd)"""
    d = C.repo_copy(tag + "-native")
    for rel, hfile in appends.items():
        p = os.path.join(d, rel)
        cur = open(p).read()
        if "mod verif_kani" not in cur:
            with open(p, "w") as f:
                f.write(cur + "\n" + open(hfile).read() + "\n")
    p = os.path.join(d, target_rel)
    cur = open(p).read()
    cur = re.sub(r"\n#\[cfg\(test\)\]\nmod verif_kani_replay \{.*?\n\}\n", "\n", cur, flags=re.S)
    modname = h["fq"].split("::")[-2]
    test = ("\n#[cfg(test)]\nmod verif_kani_replay {\n    #[test]\n    fn replay() {\n        super::%s::h_%s(%s);\n    }\n}\n"
            % (modname, h["fn"], ", ".join(lits)))
    with open(p, "w") as f:
        f.write(cur + test)
    mp = module_path(target_rel)
    filt = (mp + "::" if mp else "") + "verif_kani_replay::replay"
    cmd = ["cargo", "test", "--offline", "--lib", filt, "--", "--exact", "--nocapture"]
    env = C.test_env()
    try:
        pr = subprocess.run(cmd, cwd=d, env=env, capture_output=True, text=True, timeout=timeout)
    except subprocess.TimeoutExpired:
        return None, "timeout", " ".join(cmd)
    out = pr.stdout + "\n" + pr.stderr
    m = re.search(r"test result: (\w+)\. (\d+) passed; (\d+) failed", out)
    if not m or (int(m.group(2)) + int(m.group(3))) == 0:
        return None, out[-1500:], " ".join(cmd)
    pm = re.search(r"(thread '[^']*'[^\n]*panicked at .*?)(?:\nnote:|\n\n|$)", out, re.S)
    return int(m.group(3)) > 0, (pm.group(1) if pm else out[-800:]), " ".join(cmd)
