"""Kani in place: harness modules are appended to a byte-identical scratch copy of /repo."""
import os
import re
import subprocess
import time

from . import common as C

HARNESS_RE = re.compile(r"//\s*@HARNESS\s+(.*)")


def parse_harness_file(path):
    """returns list of dict(id, fn, tier, kind, props, bound, timeout)"""
    out = []
    lines = open(path).read().split("\n")
    for i, ln in enumerate(lines):
        m = HARNESS_RE.search(ln)
        if not m:
            continue
        kv = dict(re.findall(r'(\w+)=("[^"]*"|\S+)', m.group(1)))
        kv = {k: v.strip('"') for k, v in kv.items()}
        fn = None
        for k in range(i + 1, min(len(lines), i + 12)):
            mm = re.match(r"\s*(?:pub\s+)?fn\s+(\w+)", lines[k])
            if mm:
                fn = mm.group(1)
                break
        if fn is None:
            raise RuntimeError("%s:%d @HARNESS without fn" % (path, i + 1))
        out.append({"id": kv.get("id", fn), "fn": fn, "tier": kv.get("tier", "quick"), "kind": kv.get("kind", "K"),
                    "props": kv.get("props", "").split(","), "bound": kv.get("bound"), "timeout": int(kv.get("timeout", "900")),
                    "file": path})
    return out


def prepare_copy(tag, appends):
    """appends: {repo relative path: harness file}.  Returns (copy_dir, stats)"""
    d = C.repo_copy(tag)
    stats = {"files_touched": 0, "lines_added": 0, "lines_removed_or_changed": 0}
    for rel, hfile in appends.items():
        p = os.path.join(d, rel)
        orig = open(os.path.join(C.REPO, rel)).read()
        cur = open(p).read()
        if "mod verif_kani" in cur:
            continue
        body = open(hfile).read()
        add = "\n#[cfg(kani)]\nmod verif_kani {\n" + body + "\n}\n"
        with open(p, "w") as f:
            f.write(orig + add)
        new = open(p).read()
        if not new.startswith(orig):
            stats["lines_removed_or_changed"] += 1
        stats["files_touched"] += 1
        stats["lines_added"] += add.count("\n")
    lock = os.path.join(C.REPO, "Cargo.lock")
    if os.path.exists(lock):
        subprocess.run(["cp", lock, os.path.join(d, "Cargo.lock")])
    return d, stats


def run_harnesses(copy_dir, harnesses, jobs=16, extra_flags=()):
    """Run each harness as its own cargo-kani invocation (parallel up to `jobs`, the crate
    compile is serialised by cargo's target lock).  Returns list of result dicts."""
    from concurrent.futures import ThreadPoolExecutor
    target = os.path.join(C.CACHE, "kani-target")
    os.makedirs(target, exist_ok=True)

    def one(h):
        cmd = ["cargo", "kani", "--lib", "--target-dir", target, "-Z", "stubbing", "-Z", "function-contracts",
               "--harness", h["fn"], "--exact"] + list(extra_flags)
        t0 = time.time()
        try:
            p = subprocess.run(cmd, cwd=copy_dir, env=C.offline_env(), capture_output=True, text=True, timeout=h["timeout"])
            out = p.stdout + "\n" + p.stderr
            rc = p.returncode
        except subprocess.TimeoutExpired as e:
            out = (e.stdout or b"").decode(errors="replace") if isinstance(e.stdout, bytes) else (e.stdout or "")
            rc = -9
        r = parse_output(out)
        r.update({"harness": h, "rc": rc, "wall_s": round(time.time() - t0, 1), "cmd": " ".join(cmd), "raw_tail": out[-3000:]})
        if rc == -9:
            r["status"] = "timeout"
        return r

    # first one alone (compiles the crate), then the rest in parallel
    results = []
    if not harnesses:
        return results
    results.append(one(harnesses[0]))
    with ThreadPoolExecutor(max_workers=max(1, jobs)) as ex:
        results += list(ex.map(one, harnesses[1:]))
    return results


def parse_output(out):
    checks = []
    cur = None
    for ln in out.split("\n"):
        m = re.match(r"Check (\d+): (\S+)", ln)
        if m:
            cur = {"name": m.group(2)}
            checks.append(cur)
            continue
        if cur is not None:
            m = re.match(r"\s*- Status: (\w+)", ln)
            if m:
                cur["status"] = m.group(1)
            m = re.match(r'\s*- Description: "(.*)"', ln)
            if m:
                cur["desc"] = m.group(1)
            m = re.match(r"\s*- Location: (.*)", ln)
            if m:
                cur["loc"] = m.group(1)
    status = "unknown"
    if "VERIFICATION:- SUCCESSFUL" in out:
        status = "success"
    elif "VERIFICATION:- FAILED" in out:
        status = "failed"
    elif "error: internal compiler error" in out or "error[" in out or "error:" in out:
        status = "error"
    failed = [c for c in checks if c.get("status") in ("FAILURE",)]
    unsat_covers = [c for c in checks if c.get("status") in ("UNSATISFIABLE", "UNREACHABLE") and ".cover." in c["name"]]
    undet = [c for c in checks if c.get("status") == "UNDETERMINED"]
    stubs = re.findall(r"- Stub: (.*)", out)
    m = re.search(r"Verification Time: ([\d.]+)s", out)
    return {"status": status, "n_checks": len([c for c in checks if ".cover." not in c["name"]]), "failed_checks": failed,
            "covers": len([c for c in checks if ".cover." in c["name"]]), "unsat_covers": unsat_covers,
            "undetermined": undet, "stubs": stubs, "solver_s": float(m.group(1)) if m else None}


def concrete_playback(copy_dir, h):
    """re-run a failed harness with concrete playback; returns the printed unit test text (or None)"""
    target = os.path.join(C.CACHE, "kani-target")
    cmd = ["cargo", "kani", "--lib", "--target-dir", target, "-Z", "stubbing", "-Z", "function-contracts", "-Z", "concrete-playback",
           "--concrete-playback=print", "--harness", h["fn"], "--exact"]
    try:
        p = subprocess.run(cmd, cwd=copy_dir, env=C.offline_env(), capture_output=True, text=True, timeout=h["timeout"])
    except subprocess.TimeoutExpired:
        return None
    out = p.stdout
    m = re.search(r"```\n(.*?)```", out, re.S)
    if not m:
        return None
    return m.group(1)
