"""Which units decide which property.  Everything else (contracts, harnesses) lives in /verif/units."""
import os
import re

VERIF = "/verif"

# verus unit -> native witness search on the real code (appended to `target` in a scratch copy)
WITNESS = {
    "partition": {"target": "src/common/partition.rs", "src": "units/partition/witness.rs"},
    "toi": {"target": "src/sender/toiallocator.rs", "src": "units/toi/witness.rs"},
    "getext": {"target": "src/common/lct.rs", "src": "units/getext/witness.rs"},
    "ntp": {"target": "src/tools/mod.rs", "src": "units/ntp/witness.rs"},
    "objrecv": {"target": "src/receiver/objectreceiver.rs", "src": "units/objrecv/witness.rs"},
    "timing": {"target": "src/sender/filedesc.rs", "src": "units/timing/witness.rs"},
    "ringbuffer": {"target": "src/tools/ringbuffer.rs", "src": "units/ringbuffer/witness.rs"},
    "blockencoder": {"target": "src/sender/blockencoder.rs", "src": "units/blockencoder/witness.rs"},
    "blockwriter": {"target": "src/receiver/blockwriter.rs", "src": "units/blockwriter/witness.rs"},
    "decoders": {"target": "src/fec/nocode.rs", "src": "units/decoders/witness.rs"},
    "receiver": {"target": "src/receiver/receiver.rs", "src": "units/receiver/witness.rs"},
    "multireceiver": {"target": "src/receiver/multireceiver.rs", "src": "units/multireceiver/witness.rs", "always": True},
    "fdtsched": {"target": "src/sender/fdt.rs", "src": "units/fdtsched/witness.rs"},
    "sendsched": {"target": "src/sender/sendersession.rs", "src": "units/sendsched/witness.rs"},
    "filedesc": {"target": "src/sender/filedesc.rs", "src": "units/filedesc/witness.rs"},
    "confine": {"target": "src/receiver/writer/objectwriterfs.rs", "src": "units/confine/witness.rs"},
    "fecenc": {"target": "src/fec/raptor.rs", "src": "units/fecenc/witness.rs", "always": True},
    "fdtoti": {"target": "src/common/fdtinstance.rs", "src": "units/fdtoti/witness.rs", "always": True},
    "cachectl": {"target": "src/sender/objectdesc.rs", "src": "units/cachectl/witness.rs"},
}
WITNESS = {k: v for k, v in WITNESS.items() if os.path.exists(os.path.join(VERIF, v["src"]))}

# Kani in place: harness files appended to a byte-identical copy of the defining source file
KANI_WIRE = [
    {"target": "src/tools/error.rs", "src": "units/wire/kani_stubs.rs"},
    {"target": "src/common/lct.rs", "src": "units/wire/kani_lct.rs"},
    {"target": "src/common/alc.rs", "src": "units/wire/kani_alc.rs"},
    {"target": "src/common/alccodec/alcnocode.rs", "src": "units/wire/kani_alcnocode.rs"},
    {"target": "src/common/alccodec/alcrs28.rs", "src": "units/wire/kani_alcrs28.rs"},
    {"target": "src/common/alccodec/alcrs28underspecified.rs", "src": "units/wire/kani_alcrs28underspecified.rs"},
    {"target": "src/common/alccodec/alcrs2m.rs", "src": "units/wire/kani_alcrs2m.rs"},
    {"target": "src/common/alccodec/alcraptorq.rs", "src": "units/wire/kani_alcraptorq.rs"},
    {"target": "src/common/alccodec/alcraptor.rs", "src": "units/wire/kani_alcraptor.rs"},
    {"target": "src/sender/block.rs", "src": "units/decoders/kani_block.rs"},
    {"target": "src/fec/rscodec.rs", "src": "units/decoders/kani_rscodec.rs"},
    {"target": "src/receiver/writer/objectwriterfs.rs", "src": "units/confine/kani_confine.rs"},
    {"target": "src/common/oti.rs", "src": "units/wire/kani_oti.rs"},
    {"target": "src/common/fdtinstance.rs", "src": "units/wire/kani_fdtinstance.rs"},
]
KANI_WIRE = [g for g in KANI_WIRE if os.path.exists(os.path.join(VERIF, g["src"])) and "@READY" in open(os.path.join(VERIF, g["src"])).read(400)]

TRUST_COMMON = ("trusted: Verus 0.2026.09.13/Z3, Kani 0.68/CBMC, the extractor and its closed rewrite list R1-R13, the std/vstd contracts "
                "listed one by one under `assumptions` in the evidence file; callee contracts proved in another unit are marked as such")


def U(*names):
    """verus units that exist on disk and are marked READY (units still under construction are not registered)"""
    return [n for n in names if os.path.exists(os.path.join(VERIF, "units", n, "unit.vrs")) and os.path.exists(os.path.join(VERIF, "units", n, "READY"))]


PROPS = {
    "C01": {
        "level": "proof", "verus": U("partition", "objrecv", "ringbuffer", "decoders", "blockwriter", "blockencoder", "filedesc"), "kani": KANI_WIRE, "structural": [],
        "technique": "conjunction of component contracts: Verus (FileDesc::new refusal and Z, partition at both ends, sender block cutting, receiver pipeline incl. attach_fdt / create_meta metadata copies, FIFO ring, decoders, writers, receiver registries) + Kani (max_transfer_length within the wire capacity, codec round trips)",
        "claim": "what contracts decide of the end-to-end statement: refusal of objects above the scheme's wire capacity at add time (and that capacity bound for every E, B); Z announced is accepted by the receiver; the same RFC 5052 partition on both ends; header/FTI/payload-id round trips for every field value; metadata fields of the FDT entry copied one by one into the writer's metadata; first-copy-wins symbol placement and in-order trimmed write-out; an object completes only through an opened writer; a loss-free FIFO decompression ring; exactly one terminal writer call; each as a discharged obligation on the real code",
        "not_covered": ["FEC encode/decode inverses of reed-solomon-erasure / raptorq / raptor-code", "flate2 round trip", "XML serialisation (quick-xml/serde)",
                        "receive-once registry across transfers as a history property", "file contents written by ObjectWriterFS", "mixes of concurrent objects"],
    },
    "C02": {
        "level": "proof", "verus": U("decoders", "blockencoder", "objrecv"), "kani": [], "structural": [],
        "technique": "Verus contracts: decoder completeness conditions (No-Code, RS), close-object flag placement on sender and receiver, progress clauses of the receive pipeline (cached packets replayed, completed blocks at the head of the window written at once, blocks decoded before the FDT written when it is attached)",
        "claim": "No-Code decodes iff all k source symbols were seen, RS iff k distinct encoding symbols (MDS reconstruct assumed); duplicates never change the counters; the sender sets the close-object flag on the last packet of the last transfer only; the receiver interrupts on the B flag only an object whose FDT is attached and that is still incomplete after the flagged packet was processed; the rest of a compressed stream never fails a complete content",
        "not_covered": ["Raptor / RaptorQ decodability", "loss of FDT packets", "the exhaustive loss-subset quantifier as a history property"],
    },
    "C03": {
        "level": "proof", "verus": U("objrecv", "decoders", "blockwriter", "fdtoti"), "kani": [], "structural": [],
        "technique": "Verus data-structure invariants (first copy wins, in-order trimmed writes, MD5 gate before complete, one terminal state)",
        "claim": "complete() is reachable only when every byte was written and the MD5 gate passed; symbols are placed by ESI and the first copy wins; "
                 "an object that ended ignores further packets; a writer never sees both complete and error",
        "not_covered": ["stale packets of another transfer under the same TOI with different content (length mismatch is only logged)", "MD5 itself", "decompression output"],
    },
    "C04": {
        "level": "proof", "verus": U("getext", "objrecv", "ringbuffer", "blockwriter", "partition", "decoders", "receiver", "multireceiver", "fdtoti", "expiry"), "kani": KANI_WIRE, "structural": [],
        "technique": "totality contracts: Kani on every datagram up to a stated length for the codecs, Verus (unbounded) for the extension walk, the receiver pipeline, ring and block arithmetic",
        "claim": "every parser returns Ok or Err on every byte string up to the stated datagram length (no panic, no overflow); the unbounded extension walk, "
                 "ObjectReceiver::push and everything below it, the ring buffer and partition arithmetic are panic- and overflow-free for all inputs under "
                 "the packet shape the parsers establish; the inflate loop terminates",
        "not_covered": ["internals of raptorq / raptor-code / reed-solomon-erasure / flate2 / quick-xml on hostile input", "real heap growth", "wall-clock"],
    },
    "C06": {
        "level": "proof", "verus": U("getext", "ntp"), "kani": KANI_WIRE, "structural": [],
        "technique": "Kani/CBMC full-domain harnesses on the real codecs against decoders written from the RFC text; Verus for the extension walk and NTP arithmetic",
        "claim": "LCT header push/parse equal an RFC 5651 decoder written from the RFC text for every field value (CCI 0 in the quick tier, full 128 bit in the thorough tier) and every datagram of 4..48 bytes; EXT_FDT / EXT_CENC / EXT_TIME layouts (EXT_TIME against an RFC decoder for every slice of 4..20 bytes, incl. the SCT-High-only form); six EXT_FTI and six payload-id layouts per RFC 5445/5510/6330/5053 with round trips over the full field domains; unknown and long extensions skipped (unbounded); NTP conversion to the nearest microsecond",
        "not_covered": ["new_alc_pkt composition of several extensions in one packet beyond the 40-byte datagram harness"],
    },
    "C07": {
        "level": "proof", "verus": U("partition", "objrecv", "blockencoder", "filedesc"), "kani": KANI_WIRE, "structural": [],
        "technique": "Verus contracts against an RFC 5052 spec over nat (nonlinear-arithmetic lemmas); both ends proved to store that partition",
        "claim": "block_partitioning == RFC 5052 section 9.1 for every u64 triple; block_length == per-block byte length for every L < 2^48, E <= 65535, SBN < N "
                 "without intermediate overflow; receiver and sender store exactly that partition of (transfer length, E, B)",
        "not_covered": [],
    },
    "C08": {
        "level": "proof", "verus": U("decoders", "blockencoder"), "kani": KANI_WIRE, "structural": [],
        "technique": "Verus contracts on Block::read, all of BlockEncoder, the Raptor / RaptorQ encoder wrappers (shard counts and ESI order against opaque stand-ins of the third-party encoders); Kani bounded harnesses for No-Code / RS shard slicing; native search of the shard bytes of the two third-party encoders in every tier",
        "claim": "symbols of a block leave in shard order, each once; blocks are opened in increasing SBN and drained round robin; k source shards then exactly the configured number of repair shards, ESI == index, for Raptor and RaptorQ; the close-object flag only on the last packet of the last transfer or on the forced-close packet; A flag only in the close-session packet; No-Code / RS shard slicing bounded",
        "not_covered": ["byte content of Raptor / RaptorQ repair symbols (third-party encoders)", "the per-transfer history (every symbol of every block) as one statement"],
    },
    "C09": {
        "level": "proof", "verus": U("objrecv", "blockwriter"), "kani": [], "structural": ["s_writer_calls_only_in_contracted_functions"],
        "technique": "Verus typestate automaton on a ghost call trace of the object writer (every writer call site rewritten to a monitored wrapper with the automaton step as precondition)",
        "claim": "every writer call in objectreceiver.rs is a step of open -> write* -> (complete|error|interrupted) -> nothing; the invariant linking the session state to the "
                 "trace is preserved by every &mut self method of the receive pipeline; drop leaves every opened writer with its terminal call",
        "not_covered": ["builder answers across objects", "prefix-of-content beyond byte counts for CENC != null"],
    },
    "C10": {
        "level": "proof", "verus": U("fdtsched"), "kani": KANI_WIRE, "structural": [],
        "technique": "Verus contracts on Fdt::{new,publish,get_fdt_instance,to_xml,current_fdt_will_expire,get_next_fdt_transfer}, on the FDT <-> Oti attribute conversions, on the cache-directive conversions in both directions; Kani layout harness for EXT_FDT",
        "claim": "instance id arithmetic modulo 2^20 (start id masked), the queued instance carries the old id and an Expires of the publication instant plus the configured duration, republication at expiry at the latest and before it for durations >= 1 s, never while an instance is queued; FEC OTI attributes <-> Oti in both directions incl. saturation; cache directive sender -> FDT -> receiver to whole seconds; EXT_FDT carries id and version",
        "not_covered": ["XML well-formedness and escaping (quick-xml/serde trusted)", "one id never denotes two contents across the wrap (history)", "groups / ETag beyond field copies"],
    },
    "C11": {
        "level": "proof", "verus": U("timing", "fdtsched", "sendsched"), "kani": [], "structural": ["s_sender_read_polls_fdt_first"],
        "technique": "Verus contracts on the three guards (eligibility, pending-FDT gate, publish-before-start)",
        "claim": "an unpublished object is never eligible in full-FDT mode; a file session returns no packet while an FDT instance is pending; "
                 "in being-transferred mode publish precedes the start of the transfer",
        "not_covered": ["that an FDT listing the object was COMPLETELY emitted earlier (history over the composed sessions)"],
    },
    "C12": {
        "level": "proof", "verus": U("timing", "fdtsched", "sendsched", "blockencoder"), "kani": [], "structural": [],
        "technique": "Verus contracts on the counting automaton and removal path",
        "claim": "transfer counters advance by exactly one per completed transfer, expiry iff the count is reached without carousel, requeue/removal rule, forced stop yields at most one packet",
        "not_covered": ["termination of repeated reads over all sessions (variant over the whole sender)"],
    },
    "C13": {
        "level": "proof", "verus": U("sendsched", "fdtsched", "blockencoder"), "kani": [], "structural": ["s_sender_read_priority_order", "s_sender_new_session_count"],
        "technique": "Verus contracts on round-robin rotation, FIFO admission and the interleave window; structural obligations on the BTreeMap loop",
        "claim": "round-robin index arithmetic (every session polled at most once per call, first packet wins), first eligible entry admitted in queue order, at most max(1, interleave_blocks) blocks open, opened in increasing SBN and served round robin",
        "not_covered": ["strict priority across calls (global scheduling history)"],
    },
    "C14": {
        "level": "proof", "verus": U("timing", "sendsched"), "kani": [], "structural": [],
        "technique": "Verus contracts over an axiomatised std::time model (nanosecond counts)",
        "claim": "eligibility never before the start time nor before the carousel gap; pacing clock advances by exactly one tick per packet, the i-th packet is not before start + i*tick, and a packet that is due (clock <= now, no FDT instance pending) is sent at this poll; init is total over the degenerate inputs listed",
        "not_covered": ["interaction with queue priorities across calls (composed scheduler)", "tick >= target/packets (float quotient only bounded from above)"],
    },
    "C15": {
        "level": "proof", "verus": U("toi"), "kani": KANI_WIRE, "structural": ["s_toi_field_copies"],
        "technique": "Verus data-structure invariant on the extracted ToiAllocatorInternal with whole-view postconditions over HashSet<u128>",
        "claim": "every allocate/release/new preserves the allocator invariant (next TOI non-zero, within the configured width, not reserved); allocate returns a fresh value, "
                 "release removes exactly its TOI; by induction for every history, width and initial value incl. the random one; a TOI < 2^112 is carried unchanged by the LCT header",
        "not_covered": ["decimal TOI string in the FDT XML", "termination of the allocation loop", "Send/Sync (rustc auto traits)"],
    },
    "C17": {
        "level": "proof", "verus": U("objrecv", "receiver", "multireceiver"), "kani": [], "structural": [],
        "technique": "Verus accounting invariants (ghost sums over the packet cache and the window of block decoders)",
        "claim": "cache_size equals the cached bytes and the cache refuses beyond the limit; a block is allocated only within the limit or among the first two; the window of block decoders grows by a bounded amount per packet; counters never under-count; terminal operations release blocks and cache; the error list respects its configured length; only a packet of the object refreshes its activity clock; cleanup releases stalled objects, unfinished FDT instances and idle sessions",
        "not_covered": ["allocations inside FEC decoders and quick-xml", "fdt_current (literal bound 10)", "real heap bytes"],
    },
    "C18": {
        "level": "proof", "verus": U("tsifilter", "multireceiver"), "kani": [], "structural": ["s_session_open_only_on_creation"],
        "technique": "Verus reference-count view of the TSI filter with whole-view postconditions; ghost event trace for listeners",
        "claim": "the filter accepts iff bypass count > 0 or the (endpoint, TSI) count, exact or source-wildcarded, > 0, for every add/remove history; routing key is (endpoint, TSI) and the filter is consulted before any state change; listeners see one open per session creation and one close per session end (close-session packet, expiry, drop), never a close without an open",
        "not_covered": ["non-interference between sessions (follows from Rust ownership of the per-key Box<Receiver>; stated, not proved)"],
    },
    "C19": {
        "level": "proof", "verus": U("expiry", "receiver"), "kani": KANI_WIRE, "structural": [],
        "technique": "Verus contracts over the axiomatised time model; skew-invariance lemma; Kani EXT_TIME harness (the sender-current-time value handed to the receiver)",
        "claim": "server time estimate == SCT + elapsed for both signs of the offset, invariant under any receiver clock skew; expiry decision and the single Complete -> Expired transition; an object is attached only through a Complete, unexpired instance and every such instance is offered; with the check disabled nothing is ever Expired; EXT_TIME is decoded per RFC 5651 incl. the SCT-High-only form",
        "not_covered": ["objects arriving before the FDT (history)"],
    },
    "C20": {
        "level": "proof", "verus": U("blockencoder"), "kani": [], "structural": [],
        "technique": "Verus contracts: buffer and stream sources against the same block specification under the documented Read::read contract",
        "claim": "read_block_buffer and read_block_stream cut the same blocks whatever sizes the reads return; a transfer starts at stream position 0; ObjectDataSource::len is the whole source length whatever the cursor and restores the position; the constructors announce that length",
        "not_covered": ["ObjectDesc::create_from_file (std::fs)", "the md5 pass over the stream"],
    },
    "C05": {
        "level": "proof", "verus": U("confine"), "kani": [], "structural": ["s_fs_sinks_flow_from_confinement"], "fallback_witness": "confine",
        "technique": "Verus contracts on the real confined_destination / ObjectWriterFS::{open,error,interrupted,complete} (for every string, over an uninterpreted "
                     "view of std's component split) + structural data-flow obligation on every std::fs sink of the file + native grammar search (thorough tier)",
        "claim": "lexical confinement on unix: confined_destination returns only dest followed by Normal components (at least one), None for any ParentDir / RootDir / Prefix "
                 "component or an empty name; every create_dir_all / File::create / remove_file in objectwriterfs.rs is called on a path at or strictly below the destination "
                 "directory; a location that cannot be mapped inside it makes open() fail",
        "explanation": "proof relative to the std::path facts listed as TRUSTED in units/confine/unit.vrs (what a Normal component is, what PathBuf::push does with one); "
                       "url::Url::parse / Url::path are uninterpreted (path() may be any string)",
        "not_covered": ["symlinks inside the destination directory", "url::Url::parse itself (over-approximated: its path() may be any string)",
                        "Windows: a Normal component such as 'C:foo' carries a prefix when pushed (unit header: cfg(unix) only)", "ObjectWriterFS::write (names no path)"],
    },
}

def _tagged_units():
    """unit -> set of property ids for which it holds at least one `@OBL Cxx.` clause"""
    out = {}
    ud = os.path.join(VERIF, "units")
    for u in sorted(os.listdir(ud)):
        if not os.path.isdir(os.path.join(ud, u)):
            continue
        text = ""
        for f in sorted(os.listdir(os.path.join(ud, u))):
            if f.endswith((".vrs", ".spec")):
                text += open(os.path.join(ud, u, f)).read()
        out[u] = set(re.findall(r"@OBL (C\d\d)\.", text))
        for also in re.findall(r"@ALSO\s+([\w,]+)", text):
            out[u] |= {x for x in also.split(",") if x}
    return out


_TAGGED = _tagged_units()
for _p, _c in PROPS.items():
    # every READY unit holding a clause tagged for the property takes part in its check, listed explicitly or not
    for _u in U(*sorted(_TAGGED)):
        if _p in _TAGGED[_u] and _u not in _c["verus"] and _c["level"] == "proof":
            _c["verus"].append(_u)
    _c.setdefault("note", TRUST_COMMON)
    _c.setdefault("design_ref", "DESIGN.md section 6 (plan) and 11.2b (as built), %s" % _p)

NOT_APPLICABLE = {
    "C16": "liveness over an unbounded packet history of the composed sender and receiver (\"within two further cycles\"); "
           "no function- or structure-level contract expresses it; its safety ingredients are verified under C17 and C19",
}


def has_harness(pid, cfg):
    for g in cfg.get("kani", []):
        src = open(os.path.join(VERIF, g["src"])).read()
        for m in re.finditer(r"@HARNESS[^\n]*props=([\w,]+)", src):
            if pid in m.group(1).split(","):
                return True
    return False


def claimed():
    """a property is claimed only when at least one of its Verus units or Kani harnesses exists on disk"""
    return {p: c for p, c in PROPS.items() if c.get("verus") or has_harness(p, c)}
