"""Which units decide which property.  Everything else (contracts, harnesses) lives in /verif/units."""

# verus unit -> witness search (native, on the real code)
WITNESS = {
    "partition": {"target": "src/common/partition.rs", "src": "units/partition/witness.rs"},
    "toi": {"target": "src/sender/toiallocator.rs", "src": "units/toi/witness.rs"},
    "getext": {"target": "src/common/lct.rs", "src": "units/getext/witness.rs"},
    "ntp": {"target": "src/tools/mod.rs", "src": "units/ntp/witness.rs"},
}

PROPS = {
    "C07": {
        "level": "proof",
        "verus": ["partition"],
        "kani": [],
        "structural": [],
        "not_covered": [],
        "design_ref": "DESIGN.md section 6, C07",
        "technique": "Verus contracts on extracted partition functions against an RFC 5052 spec over nat (nonlinear-arithmetic lemmas)",
        "claim": "block_partitioning == RFC 5052 section 9.1 for every u64 triple; block_length == per-block byte length for every "
                 "L < 2^48, E <= 65535 and SBN < N, no intermediate overflow; proved unbounded by Verus on the extracted real text",
        "note": "trusted: Verus/Z3, the extractor's rewrite list, num-integer div_ceil/div_floor contracts (one-line bodies transcribed)",
    },
}

PROPS["C15"] = {
    "level": "proof",
    "verus": ["toi"],
    "kani": [],
    "structural": [],
    "not_covered": ["decimal TOI string in the FDT XML (to_string of the same u128)", "termination of the allocation loop",
                    "Send/Sync of Sender and Toi handles (rustc's auto-trait check, not a contract)"],
    "design_ref": "DESIGN.md section 6, C15",
    "technique": "Verus data-structure invariant (alloc_wf) on the extracted ToiAllocatorInternal with whole-view postconditions over HashSet<u128>",
    "claim": "every allocate/release/new preserves the allocator invariant (next TOI non-zero, within the configured width, not reserved; "
             "every reserved TOI non-zero and within width); allocate returns a fresh value and reserved' == reserved + {ret}; release removes exactly its TOI; "
             "holds for every history by induction over the contracts, every width and every initial value incl. the random one",
    "note": "trusted: Verus/Z3, vstd HashSet<u128> model, Mutex gives mutual exclusion (sequential invariant = lock invariant), RNG returns any u128; "
            "termination of allocate unproved",
}

KANI_WIRE = [
    {"target": "src/tools/error.rs", "src": "units/wire/kani_stubs.rs"},
    {"target": "src/common/lct.rs", "src": "units/wire/kani_lct.rs"},
    {"target": "src/common/alc.rs", "src": "units/wire/kani_alc.rs"},
    {"target": "src/common/alccodec/alcnocode.rs", "src": "units/wire/kani_alcnocode.rs"},
    {"target": "src/common/alccodec/alcrs28.rs", "src": "units/wire/kani_alcrs28.rs"},
    {"target": "src/common/alccodec/alcrs28underspecified.rs", "src": "units/wire/kani_alcrs28underspecified.rs"},
    {"target": "src/common/alccodec/alcrs2m.rs", "src": "units/wire/kani_alcrs2m.rs"},
    {"target": "src/common/alccodec/alcraptorq.rs", "src": "units/wire/kani_alcraptorq.rs"},
    {"target": "src/common/alccodec/alcraptor.rs", "src": "units/wire/kani_alcraptor.rs"},
]

PROPS["C06"] = {
    "level": "proof",
    "verus": ["getext", "ntp"],
    "kani": KANI_WIRE,
    "structural": [],
    "not_covered": [],
    "design_ref": "DESIGN.md section 6, C06",
    "technique": "Kani/CBMC full-domain harnesses on the real codecs against RFC decoders written from the RFC text; Verus for the extension walk",
    "claim": "wip",
    "note": "wip",
}
PROPS["C04"] = {
    "level": "proof",
    "verus": ["getext"],
    "kani": KANI_WIRE,
    "structural": [],
    "not_covered": [],
    "design_ref": "DESIGN.md section 6, C04",
    "technique": "totality contracts: Kani on every datagram up to a stated length, Verus for unbounded loops and arithmetic",
    "claim": "wip",
    "note": "wip",
}

NOT_APPLICABLE = {
    "C16": "liveness over an unbounded packet history of the composed sender and receiver (\"within two further cycles\"); "
           "no function- or structure-level contract expresses it; its safety ingredients are verified under C17 and C19",
}
