"""Regenerates /verif/MANIFEST.json from vf/props.py (so the manifest never drifts from what run.py does)."""
import json
import os
import sys

sys.path.insert(0, os.path.dirname(os.path.dirname(os.path.abspath(__file__))))
from vf import props as P

BASELINE_CMD = ("cd /repo && cargo nextest run --workspace --no-fail-fast --test-threads 8 --offline "
                "|| (cd /repo && cargo test --workspace --no-fail-fast --offline)")


def not_applicable():
    out = dict(P.NOT_APPLICABLE)
    for l in open("/verif/properties.jsonl"):
        pid = json.loads(l)["id"]
        if pid not in P.claimed() and pid not in out:
            out[pid] = "check not built yet in this session (work in progress; planned design in DESIGN.md section 6)"
    return [{"property_id": k, "reason": v} for k, v in sorted(out.items())]


def build():
    checks = []
    for pid in sorted(P.claimed()):
        c = P.claimed()[pid]
        checks.append({
            "property_id": pid,
            "quick_cmd": "python3 /verif/run.py %s --tier quick" % pid,
            "thorough_cmd": "python3 /verif/run.py %s --tier thorough" % pid,
            "evidence_file": "/verif/evidence/%s.json" % pid,
            "replay_cmd_template": "python3 /verif/run.py --replay {path}",
            "engine": "contracts",
            "level_claimed": {"category": c["level"], "text": c["claim"], "design_ref": c.get("design_ref", "DESIGN.md section 6")},
            "level_note": c["note"],
            "technique": c["technique"],
        })
    m = {
        "version": 1,
        "setup_cmd": "python3 /verif/run.py --setup",
        "hooks": {
            "guard": "none (no hook in /repo; `cfg(kani)` / `cfg(test)` modules exist only in the scratch copy the checks make under /var/tmp)",
            "enable": "not applicable: checks copy /repo's working tree to a scratch directory and append their harness modules there",
            "baseline_off_cmd": BASELINE_CMD,
            "source_commits": [],
            "add_only": True,
        },
        "engines": [
            {"name": "contracts", "path": "/verif/run.py", "serves_properties": sorted(P.claimed()),
             "kind_free_text": "contract-based deductive verification of the real code: Verus on mechanically extracted functions (unbounded), "
                               "Kani function/harness proofs in place on a byte-identical copy (complete for loop-free codecs, bounded where labelled), "
                               "native replay of counterexamples"},
        ],
        "checks": checks,
        "notes": "exit 0 = all obligations discharged (open known findings printed as KNOWN-FINDING); exit 1 = VIOLATION line(s); "
                 "exit 2 = undecided (lost anchor, unsupported construct, solver limit) and never an alarm. See DESIGN.md.",
        "not_applicable": not_applicable(),
    }
    return m


if __name__ == "__main__":
    m = build()
    with open("/verif/MANIFEST.json", "w") as f:
        json.dump(m, f, indent=1)
    print("MANIFEST.json written:", len(m["checks"]), "checks,", len(m["not_applicable"]), "not applicable")
