"""Native witness search / replay on the real code: a test module is appended to the scratch
copy of the file that defines the function and run with the repository's own toolchain
(cargo test, debug profile, overflow checks on -- the profile the suite uses)."""
import json
import os
import re
import signal
import subprocess

from . import common as C


def run_witness(tag, target_rel, witness_src, test_filter="verif_witness", replay_input=None, timeout=None, mode="search"):
    """returns (witnesses:list[dict], log_tail:str, ok:bool)"""
    if timeout is None:
        # the thorough tier runs larger grids (confine: location grammar at depth 4, about 240 000 writer runs)
        timeout = 3600 if os.environ.get("VERIF_TIER") == "thorough" else 600
    d = C.repo_copy(tag)
    p = os.path.join(d, target_rel)
    orig = open(os.path.join(C.REPO, target_rel)).read()
    body = open(witness_src).read()
    cur = open(p).read()
    marker = "mod verif_witness_%s" % re.sub(r"\W", "_", os.path.basename(os.path.dirname(witness_src)) + "_" + os.path.basename(witness_src))
    if marker not in cur:
        with open(p, "w") as f:
            f.write(cur + "\n#[cfg(test)]\n#[allow(dead_code, unused_imports, unused_variables, unused_mut)]\n" + marker + " {\n" + body + "\n}\n")
    env = C.test_env({"VERIF_SEED": str(C.seed()), "VERIF_TIER": os.environ.get("VERIF_TIER", "quick")})
    if replay_input is not None:
        env["VERIF_REPLAY_INPUT"] = json.dumps(replay_input)
    cmd = ["cargo", "test", "--offline", "--lib", marker.replace("mod ", "") + "::", "--", "--nocapture", "--test-threads", "1"]
    # own process group: a hang in the code under test (e.g. a walk that stops advancing) must not outlive the check
    pr = subprocess.Popen(cmd, cwd=d, env=env, stdout=subprocess.PIPE, stderr=subprocess.PIPE, text=True, start_new_session=True)
    timed_out = False
    try:
        so, se = pr.communicate(timeout=timeout)
    except subprocess.TimeoutExpired:
        timed_out = True
        try:
            os.killpg(pr.pid, signal.SIGKILL)
        except OSError:
            pass
        so, se = pr.communicate()
    out = (so or "") + "\n" + (se or "")
    if timed_out:
        out += "\nWITNESS-SEARCH-TIMEOUT after %ds (the code under test may not terminate on some input)\n" % timeout
    wits = []
    for ln in out.split("\n"):
        m = re.search(r"WITNESS (\{.*\})\s*$", ln)
        if m:
            try:
                wits.append(json.loads(m.group(1)))
            except Exception:
                pass
    ran = re.search(r"test result: (ok|FAILED)\. (\d+) passed; (\d+) failed", out)
    ok = ran is not None and not timed_out
    stats = {}
    m = re.search(r"WSTATS (\{.*\})", out)
    if m:
        try:
            stats = json.loads(m.group(1))
        except Exception:
            pass
    return wits, out[-4000:], ok, stats, " ".join(cmd)
