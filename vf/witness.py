"""Native witness search / replay on the real code: a test module is appended to the scratch
copy of the file that defines the function and run with the repository's own toolchain
(cargo test, debug profile, overflow checks on -- the profile the suite uses)."""
import json
import os
import re
import subprocess

from . import common as C


def run_witness(tag, target_rel, witness_src, test_filter="verif_witness", replay_input=None, timeout=1500, mode="search"):
    """returns (witnesses:list[dict], log_tail:str, ok:bool)"""
    d = C.repo_copy(tag)
    p = os.path.join(d, target_rel)
    orig = open(os.path.join(C.REPO, target_rel)).read()
    body = open(witness_src).read()
    cur = open(p).read()
    marker = "mod verif_witness_%s" % re.sub(r"\W", "_", os.path.basename(os.path.dirname(witness_src)) + "_" + os.path.basename(witness_src))
    if marker not in cur:
        with open(p, "w") as f:
            f.write(cur + "\n#[cfg(test)]\n#[allow(dead_code, unused_imports, unused_variables, unused_mut)]\n" + marker + " {\n" + body + "\n}\n")
    env = C.test_env({"VERIF_SEED": str(C.seed()), "VERIF_TIER": os.environ.get("VERIF_TIER", "quick")})
    if replay_input is not None:
        env["VERIF_REPLAY_INPUT"] = json.dumps(replay_input)
    cmd = ["cargo", "test", "--offline", "--lib", marker.replace("mod ", "") + "::", "--", "--nocapture", "--test-threads", "1"]
    try:
        pr = subprocess.run(cmd, cwd=d, env=env, capture_output=True, text=True, timeout=timeout)
        out = pr.stdout + "\n" + pr.stderr
    except subprocess.TimeoutExpired as e:
        out = "TIMEOUT"
        return [], out, False
    wits = []
    for ln in out.split("\n"):
        m = re.search(r"WITNESS (\{.*\})\s*$", ln)
        if m:
            try:
                wits.append(json.loads(m.group(1)))
            except Exception:
                pass
    ran = re.search(r"test result: (ok|FAILED)\. (\d+) passed; (\d+) failed", out)
    ok = ran is not None
    stats = {}
    m = re.search(r"WSTATS (\{.*\})", out)
    if m:
        try:
            stats = json.loads(m.group(1))
        except Exception:
            pass
    return wits, out[-4000:], ok, stats, " ".join(cmd)
