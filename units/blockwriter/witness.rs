// Native witness search for unit `blockwriter` (appended to src/receiver/blockwriter.rs in a scratch copy).
// Drives the REAL BlockWriter against the contract of units/blockwriter/unit.vrs with a recording ObjectWriter:
//   mode 0  CENC null: any order of `write(sbn, ..)` calls, writer failing at a chosen call, optional injected start SBN
//   mode 1  compressed path with a decompressor that stops consuming input: decode_write_pkt must return (no spin)
//   mode 2  real compressed path (zlib / deflate / gzip, compressed by the sender's own compress_buffer): blocks in order;
//           the bytes handed to the writer are the plain object, the object completes, the digest is that of the plain bytes
use super::*;
use crate::common::{alc, oti};
use std::cell::RefCell;

struct Rec {
    calls: RefCell<Vec<(u32, Vec<u8>, bool)>>,
    fail_at: usize,
}

impl ObjectWriter for Rec {
    fn open(&self, _now: SystemTime) -> Result<()> {
        Ok(())
    }
    fn write(&self, sbn: u32, data: &[u8], _now: SystemTime) -> Result<()> {
        let mut c = self.calls.borrow_mut();
        let ok = c.len() != self.fail_at;
        c.push((sbn, data.to_vec(), ok));
        if ok {
            Ok(())
        } else {
            Err(FluteError::new("verif: writer refuses"))
        }
    }
    fn complete(&self, _now: SystemTime) {}
    fn error(&self, _now: SystemTime) {}
    fn interrupted(&self, _now: SystemTime) {}
    fn enable_md5_check(&self) -> bool {
        true
    }
}

/// a decompressor that accepts `accept` bytes in total and then stops consuming; never delivers output
struct Stall {
    accept: usize,
    writes: usize,
}

impl Decompress for Stall {
    fn write(&mut self, data: &[u8]) -> std::io::Result<usize> {
        self.writes += 1;
        if self.writes > 100_000 {
            panic!("verif: spin");
        }
        let n = std::cmp::min(self.accept, data.len());
        self.accept -= n;
        Ok(n)
    }
    fn read(&mut self, _data: &mut [u8]) -> std::io::Result<usize> {
        Err(std::io::Error::new(std::io::ErrorKind::WouldBlock, "verif"))
    }
    fn finish(&mut self) {}
}

fn block_bytes(i: u64, len: u64) -> Vec<u8> {
    (0..len).map(|j| ((i * 31 + j * 7 + 3) & 0xff) as u8).collect()
}

/// a completed NoCode block decoder holding `bytes` (one source symbol)
fn completed_block(bytes: &[u8], sbn: u32) -> BlockDecoder {
    let mut b = BlockDecoder::new();
    let o = oti::Oti::default();
    b.init(&o, 1, bytes.len(), sbn).unwrap();
    let pkt = alc::AlcPkt {
        lct: lct::LCTHeader {
            len: 0,
            cci: 0,
            tsi: 0,
            toi: 1,
            cp: 0,
            close_object: false,
            close_session: false,
            header_ext_offset: 0,
            length: 0,
        },
        oti: None,
        transfer_length: None,
        cenc: None,
        server_time: None,
        data: bytes,
        data_alc_header_offset: 0,
        data_payload_offset: 0,
        fdt_info: None,
    };
    b.push(
        &pkt,
        &alc::PayloadID {
            sbn,
            esi: 0,
            source_block_length: None,
        },
    );
    b
}

struct Rng(u64);
impl Rng {
    fn next(&mut self) -> u64 {
        self.0 ^= self.0 << 13;
        self.0 ^= self.0 >> 7;
        self.0 ^= self.0 << 17;
        self.0
    }
}

#[derive(Clone, Copy, Debug)]
struct Input {
    mode: u64,
    tl: u64,
    md5: u64,
    nblk: u64,
    blen: u64,
    skew: u64,
    fail_at: u64,
    sbn0: u64,
}

impl Input {
    fn json(&self) -> String {
        format!(
            "{{\"mode\":{},\"tl\":{},\"md5\":{},\"nblk\":{},\"blen\":{},\"skew\":{},\"fail_at\":{},\"sbn0\":{}}}",
            self.mode, self.tl, self.md5, self.nblk, self.blen, self.skew, self.fail_at, self.sbn0
        )
    }
}

fn report(func: &str, obl: &str, input: &Input, observed: String, expected: String) {
    println!(
        "WITNESS {{\"fn\":\"{}\",\"obl\":\"{}\",\"input\":{},\"observed\":\"{}\",\"expected\":\"{}\"}}",
        func,
        obl,
        input.json(),
        observed.replace('"', "'"),
        expected.replace('"', "'")
    );
}

/// returns true when the real code violates the contract on this input
fn check(inp: &Input) -> bool {
    let r = std::panic::catch_unwind(|| match inp.mode {
        1 => check_stall(inp),
        2 => check_cenc(inp),
        _ => check_null(inp),
    });
    match r {
        Ok(bad) => bad,
        Err(e) => {
            let msg = e
                .downcast_ref::<String>()
                .cloned()
                .or_else(|| e.downcast_ref::<&str>().map(|s| s.to_string()))
                .unwrap_or_default();
            let (f, o) = if inp.mode == 1 {
                ("decode_write_pkt", "C04.blockwriter.decode_write_pkt")
            } else {
                ("write", "C04.blockwriter")
            };
            report(f, o, inp, format!("panic: {}", msg), "returns Ok or Err".to_string());
            true
        }
    }
}

fn check_stall(inp: &Input) -> bool {
    let now = SystemTime::now();
    let rec = Rec {
        calls: RefCell::new(Vec::new()),
        fail_at: usize::MAX,
    };
    let mut bw = BlockWriter::new(inp.tl as usize, None, lct::Cenc::Zlib, false);
    bw.decoder = Some(Box::new(Stall {
        accept: inp.skew as usize,
        writes: 0,
    }));
    bw.buffer = vec![0; 16];
    let pkt = block_bytes(0, inp.blen);
    let r = bw.decode_write_pkt(&pkt, &rec, now);
    let all = inp.skew >= inp.blen;
    if r.is_ok() != all {
        report(
            "decode_write_pkt",
            "C04.blockwriter.decode_write_pkt",
            inp,
            format!("is_ok={}", r.is_ok()),
            format!("is_ok={} (Ok iff the decoder consumed the whole block)", all),
        );
        return true;
    }
    false
}

fn check_null(inp: &Input) -> bool {
    let now = SystemTime::now();
    let rec = Rec {
        calls: RefCell::new(Vec::new()),
        fail_at: inp.fail_at as usize,
    };
    let md5_on = inp.md5 != 0;
    let mut bw = BlockWriter::new(inp.tl as usize, None, lct::Cenc::Null, md5_on);
    bw.sbn = inp.sbn0 as u32;
    let mut exp_sbn: u32 = inp.sbn0 as u32;
    let mut exp_left: usize = inp.tl as usize;
    let mut handed: Vec<u8> = Vec::new();
    let mut ncalls = 0usize;
    let mut rng = Rng(0x9E3779B97F4A7C15 ^ (inp.skew.wrapping_mul(0x2545F4914F6CDD1D) | 1));
    let mut done = false;
    for _step in 0..(3 * inp.nblk + 2) {
        let d = rng.next() % 5;
        let sbn = match d {
            0 => exp_sbn.wrapping_add(1),
            1 => exp_sbn.wrapping_sub(1),
            _ => exp_sbn,
        };
        let bytes = block_bytes(sbn as u64, inp.blen);
        let block = completed_block(&bytes, sbn);
        let r = bw.write(sbn, &block, &rec, now);
        let calls = rec.calls.borrow();
        if sbn != exp_sbn {
            // refusal: Ok(false), nothing changes, no call
            let ok = matches!(r, Ok(false)) && bw.sbn == exp_sbn && bw.left() == exp_left && calls.len() == ncalls;
            if !ok {
                report(
                    "write",
                    "C03.blockwriter.write.refus",
                    inp,
                    format!("r={:?} sbn={} left={} calls={}", r.as_ref().ok(), bw.sbn, bw.left(), calls.len()),
                    format!("Ok(false) sbn={} left={} calls={}", exp_sbn, exp_left, ncalls),
                );
                return true;
            }
            continue;
        }
        let w = std::cmp::min(bytes.len(), exp_left);
        let will_fail = ncalls == inp.fail_at as usize;
        // exactly one call carrying the trimmed block
        let call_ok = calls.len() == ncalls + 1 && {
            let c = &calls[ncalls];
            c.0 == sbn && c.1[..] == bytes[..w]
        };
        if !call_ok {
            report(
                "write",
                "C09.blockwriter.write.null_exactly_one_write_carrying_the_trimmed_block",
                inp,
                format!("calls={} last={:?}", calls.len(), calls.last().map(|c| (c.0, c.1.len()))),
                format!("calls={} last=({}, {})", ncalls + 1, sbn, w),
            );
            return true;
        }
        ncalls += 1;
        handed.extend(&bytes[..w]);
        if will_fail {
            let ok = r.is_err() && bw.sbn == exp_sbn && bw.left() == exp_left && bw.get_md5().is_none();
            if !ok {
                report(
                    "write",
                    "C03.blockwriter.write.err_bookkeeping_unchanged_or_failed_final_flush",
                    inp,
                    format!("is_err={} sbn={} left={}", r.is_err(), bw.sbn, bw.left()),
                    format!("Err sbn={} left={}", exp_sbn, exp_left),
                );
                return true;
            }
            done = true;
            break;
        }
        exp_left -= w;
        exp_sbn = exp_sbn.wrapping_add(1);
        let ok = matches!(r, Ok(true)) && bw.sbn == exp_sbn && bw.left() == exp_left && bw.is_completed() == (exp_left == 0);
        if !ok {
            report(
                "write",
                "C03.blockwriter.write.bytes_left_decreases_by_the_trimmed_block",
                inp,
                format!("r={:?} sbn={} left={} completed={}", r.as_ref().ok(), bw.sbn, bw.left(), bw.is_completed()),
                format!("Ok(true) sbn={} left={} completed={}", exp_sbn, exp_left, exp_left == 0),
            );
            return true;
        }
        if exp_left == 0 {
            let want = if md5_on {
                Some(base64::engine::general_purpose::STANDARD.encode(md5::compute(&handed).0))
            } else {
                None
            };
            let got = bw.get_md5().map(|s| s.to_owned());
            let chk = bw.check_md5(want.as_deref().unwrap_or("anything")) && (bw.check_md5("not-a-digest") == !md5_on);
            if got != want || !chk {
                report(
                    "write",
                    "C03.blockwriter.write.completion_sets_digest_of_exactly_the_written_bytes",
                    inp,
                    format!("md5={:?} check={}", got, chk),
                    format!("md5={:?} check=true", want),
                );
                return true;
            }
            done = true;
            break;
        } else if bw.get_md5().is_some() {
            report(
                "write",
                "C03.blockwriter.write.no_digest_before_completion",
                inp,
                format!("md5={:?}", bw.get_md5()),
                "None".to_string(),
            );
            return true;
        }
    }
    let _ = done;
    false
}

/// mode 2: tl = plain length, blen = block length of the transfer-encoded bytes, skew = content encoding (1 zlib, 2 deflate, 3 gzip),
/// md5 = digest enabled, nblk = 1: the FDT announced the Content-Length, 0: it did not
fn check_cenc(inp: &Input) -> bool {
    let now = SystemTime::now();
    let rec = Rec {
        calls: RefCell::new(Vec::new()),
        fail_at: usize::MAX,
    };
    let cenc = match inp.skew % 3 {
        0 => lct::Cenc::Zlib,
        1 => lct::Cenc::Deflate,
        _ => lct::Cenc::Gzip,
    };
    let plain: Vec<u8> = (0..inp.tl).map(|j| ((j * j * 7 + j / 3 + inp.tl) & 0xff) as u8).collect();
    let enc = crate::sender::compress::compress_buffer(&plain, cenc).unwrap();
    let md5_on = inp.md5 != 0;
    let content_length = if inp.nblk != 0 { Some(plain.len()) } else { None };
    let mut bw = BlockWriter::new(enc.len(), content_length, cenc, md5_on);
    let blen = std::cmp::max(inp.blen as usize, 1);
    let mut sbn = 0u32;
    let mut last = Ok(false);
    for chunk in enc.chunks(blen) {
        let block = completed_block(chunk, sbn);
        last = bw.write(sbn, &block, &rec, now);
        if !matches!(last, Ok(true)) {
            break;
        }
        sbn += 1;
    }
    let written: Vec<u8> = rec.calls.borrow().iter().flat_map(|c| c.1.clone()).collect();
    let want = if md5_on {
        Some(base64::engine::general_purpose::STANDARD.encode(md5::compute(&plain).0))
    } else {
        None
    };
    let got = bw.get_md5().map(|s| s.to_owned());
    if !matches!(last, Ok(true)) || !bw.is_completed() || written != plain {
        report(
            "write",
            "C03.blockwriter.write.decoded_bytes_are_the_plain_object",
            inp,
            format!("last={:?} completed={} written={} bytes equal={}", last.as_ref().ok(), bw.is_completed(), written.len(), written == plain),
            format!("Ok(true) completed=true written={} bytes equal=true", plain.len()),
        );
        return true;
    }
    if got != want || (md5_on && bw.check_md5("not-a-digest")) {
        report(
            "write",
            "C03.blockwriter.write.completion_sets_digest_of_exactly_the_written_bytes",
            inp,
            format!("md5={:?} accepts a wrong digest={}", got, bw.check_md5("not-a-digest")),
            format!("md5={:?} accepts a wrong digest=false", want),
        );
        return true;
    }
    false
}

fn json_u64(s: &str, key: &str) -> Option<u64> {
    let k = format!("\"{}\":", key);
    let p = s.find(&k)? + k.len();
    let rest = s[p..].trim_start();
    let end = rest.find(|c: char| !c.is_ascii_digit()).unwrap_or(rest.len());
    rest[..end].parse().ok()
}

#[test]
fn search() {
    std::panic::set_hook(Box::new(|_| {}));
    if let Ok(s) = std::env::var("VERIF_REPLAY_INPUT") {
        let g = |k: &str| json_u64(&s, k).unwrap();
        let inp = Input {
            mode: g("mode"),
            tl: g("tl"),
            md5: g("md5"),
            nblk: g("nblk"),
            blen: g("blen"),
            skew: g("skew"),
            fail_at: g("fail_at"),
            sbn0: g("sbn0"),
        };
        let bad = check(&inp);
        println!("WSTATS {{\"evaluations\":1,\"mode\":\"replay\"}}");
        assert!(!bad, "replayed input still fails");
        return;
    }
    let thorough = std::env::var("VERIF_TIER").map(|t| t == "thorough").unwrap_or(false);
    let mut evals: u64 = 0;
    let mut found = 0;
    // small grid, CENC null: transfer length x block length x md5 x writer failure x call-order seed
    let (tlm, blm, sk) = if thorough { (24u64, 9u64, 12u64) } else { (12, 6, 5) };
    'grid: for tl in 1..=tlm {
        for blen in 0..=blm {
            let nblk = if blen == 0 { 3 } else { tl / blen + 2 };
            for md5 in 0..2 {
                for skew in 0..sk {
                    for fail_at in [u64::MAX, 0, 1, 2] {
                        evals += 1;
                        let inp = Input { mode: 0, tl, md5, nblk, blen, skew, fail_at, sbn0: 0 };
                        if check(&inp) {
                            found += 1;
                            if found >= 3 {
                                break 'grid;
                            }
                        }
                    }
                }
            }
        }
    }
    // stalled decompressor: block length x number of bytes the decoder accepts
    for blen in 0..=12u64 {
        for acc in 0..=13u64 {
            evals += 1;
            let inp = Input { mode: 1, tl: 100, md5: 0, nblk: 1, blen, skew: acc, fail_at: u64::MAX, sbn0: 0 };
            if found < 6 && check(&inp) {
                found += 1;
            }
        }
    }
    // real decoders: content encoding x plain length x block length x md5 x content length announced
    for cenc in 0..3u64 {
        for tl in [0u64, 1, 2, 17, 300, 5000] {
            for blen in [1u64, 2, 7, 64, 100_000] {
                for md5 in 0..2 {
                    for cl in 0..2 {
                        evals += 1;
                        let inp = Input { mode: 2, tl, md5, nblk: cl, blen, skew: cenc, fail_at: u64::MAX, sbn0: 0 };
                        if found < 6 && check(&inp) {
                            found += 1;
                        }
                    }
                }
            }
        }
    }
    // seeded random
    let seed = std::env::var("VERIF_SEED").ok().and_then(|s| s.parse::<u64>().ok()).unwrap_or(0);
    let mut r = Rng(0x9E3779B97F4A7C15 ^ (seed.wrapping_mul(0x2545F4914F6CDD1D) | 1));
    let n = if thorough { 20_000 } else { 2_000 };
    for _ in 0..n {
        let tl = 1 + r.next() % 5000;
        let blen = r.next() % 700;
        let nblk = if blen == 0 { 2 } else { tl / blen + 2 };
        let inp = Input {
            mode: 0,
            tl,
            md5: r.next() % 2,
            nblk: std::cmp::min(nblk, 40),
            blen,
            skew: r.next(),
            fail_at: if r.next() % 3 == 0 { r.next() % 8 } else { u64::MAX },
            sbn0: if r.next() % 4 == 0 { r.next() % (u32::MAX as u64 - 100) } else { 0 },
        };
        evals += 1;
        if found < 9 && check(&inp) {
            found += 1;
        }
    }
    // SBN boundary: `write` requires sbn < u32::MAX (C04.blockwriter.call.write_sbn_below_u32_max, a documented CALLER
    // obligation: reached only after 2^32 - 1 accepted blocks).  The start SBN is injected into the private field, so
    // this is not part of the default search; enable with VERIF_BW_SBN_BOUNDARY=1 or replay
    // {"mode":0,"tl":10,"md5":0,"nblk":1,"blen":4,"skew":2,"fail_at":18446744073709551615,"sbn0":4294967295}
    if std::env::var("VERIF_BW_SBN_BOUNDARY").is_ok() {
        evals += 1;
        let inp = Input { mode: 0, tl: 10, md5: 0, nblk: 1, blen: 4, skew: 2, fail_at: u64::MAX, sbn0: u32::MAX as u64 };
        if check(&inp) {
            found += 1;
        }
    }
    println!("WSTATS {{\"evaluations\":{},\"mode\":\"search\"}}", evals);
    assert!(found == 0, "witness found");
}
