// Native witness search for unit `filedesc` (appended to src/sender/filedesc.rs in a scratch copy).
// Drives the REAL FileDesc::new, the REAL EXT_FTI writers/readers (AlcCodec::instance(..).add_fti / get_fti) and the REAL
// partition::block_partitioning; prints a WITNESS line when the behaviour violates the contract of units/filedesc/unit.vrs
// (or the sender/receiver agreement of C07 that the lemma of that unit states over nat).
use super::*;
use crate::common::lct;
use crate::common::oti::{FECEncodingID, Oti, RaptorQSchemeSpecific, RaptorSchemeSpecific};
use crate::sender::objectdesc::{ObjectDesc, TransferConfig};
use crate::sender::toiallocator::ToiAllocator;
use crate::sender::TOIMaxLength;

fn wit(f: &str, input: String, observed: String, expected: &str) {
    println!(
        "WITNESS {{\"fn\":\"{}\",\"input\":{},\"observed\":\"{}\",\"expected\":\"{}\"}}",
        f, input, observed.replace('"', "'").replace('\\', ""), expected
    );
}

fn obs(what: &str, detail: String) {
    println!("OBSERVATION {{\"what\":\"{}\",\"detail\":\"{}\"}}", what, detail.replace('"', "'"));
}

fn panic_text(e: Box<dyn std::any::Any + Send>) -> String {
    e.downcast_ref::<String>().cloned().or_else(|| e.downcast_ref::<&str>().map(|s| s.to_string())).unwrap_or_else(|| "panic".to_string())
}

/// an object of `buf_len` real bytes whose announced transfer length is `l` (the field is public; equal to buf_len in the grid)
fn object(buf_len: usize, l: u64, oti: Option<Oti>) -> Box<ObjectDesc> {
    let alloc = ToiAllocator::new(TOIMaxLength::ToiMax32, Some(1));
    let mut o = ObjectDesc::create_from_buffer(
        vec![0u8; buf_len],
        "application/octet-stream",
        &url::Url::parse("file:///w.bin").unwrap(),
        false,
        TransferConfig { oti, ..Default::default() },
    )
    .unwrap();
    o.transfer_length = l;
    o.set_toi(ToiAllocator::allocate(&alloc));
    o
}

fn raptor_family(fec: FECEncodingID, e: u16, b: u16) -> Oti {
    match fec {
        FECEncodingID::RaptorQ => Oti::new_raptorq(e, b, 0, 1, 1).unwrap(),
        _ => Oti::new_raptor(e, b, 0, 1, 1).unwrap(),
    }
}

/// what a receiver reads back from the first packet flute builds for (oti, l): the packet is made by alc::new_alc_pkt (LCT header,
/// EXT_FTI through the scheme's add_fti, FEC payload ID) exactly as SenderSession does, and read by alc::parse_alc_pkt (get_fti)
fn fti_roundtrip(oti: &Oti, l: u64) -> std::result::Result<Option<(Oti, u64)>, String> {
    let pkt = crate::common::pkt::Pkt {
        payload: Vec::new(), transfer_length: l, esi: 0, sbn: 0, toi: 1, fdt_id: None, cenc: lct::Cenc::Null, inband_cenc: false,
        close_object: false, source_block_length: 0, sender_current_time: false,
    };
    let data = crate::common::alc::new_alc_pkt(oti, &0u128, 1, &pkt, crate::common::Profile::RFC6726, std::time::SystemTime::UNIX_EPOCH);
    let alc = crate::common::alc::parse_alc_pkt(&data).map_err(|e| format!("{:?}", e))?;
    Ok(match (alc.oti, alc.transfer_length) {
        (Some(o), Some(rl)) => Some((o, rl)),
        _ => None,
    })
}

/// C07 sender/receiver agreement for one (fec, l, e, b): returns true when a violation is found
fn check_recon(fec: FECEncodingID, l: u64, e: u16, b: u16) -> bool {
    let input = format!("{{\"case\":\"recon\",\"fec\":{},\"l\":{},\"e\":{},\"b\":{}}}", fec as u8, l, e, b);
    let sender_q = partition::block_partitioning(b as u64, l, e as u64);
    let fits = if fec == FECEncodingID::RaptorQ { sender_q.3 <= 255 } else { sender_q.3 <= 65535 };
    let fd = FileDesc::new(0, object(l as usize, l, Some(raptor_family(fec, e, b))), &Oti::default(), None, false);
    let max = raptor_family(fec, e, b).max_transfer_length() as u64;
    let fd = match fd {
        Ok(fd) => fd,
        Err(_) => {
            if fits && l <= max {
                wit("FileDesc::new", input, "Err".to_string(), "Ok (N fits Z and L <= max_transfer_length)");
                return true;
            }
            return false;
        }
    };
    if !fits || l > max {
        wit("FileDesc::new", input, "Ok".to_string(), "Err (N does not fit Z or L above the maximum)");
        return true;
    }
    let z: u64 = match fd.oti.scheme_specific.as_ref() {
        Some(SchemeSpecific::RaptorQ(s)) => s.source_blocks_length as u64,
        Some(SchemeSpecific::Raptor(s)) => s.source_blocks_length as u64,
        _ => u64::MAX,
    };
    if z != sender_q.3.max(1) {
        wit("FileDesc::new", input, format!("Z={}", z), "Z == max(1, N) of block_partitioning(B, L, E)");
        return true;
    }
    match fti_roundtrip(&fd.oti, l) {
        Ok(Some((roti, rl))) => {
            let recv_q = partition::block_partitioning(roti.maximum_source_block_length as u64, rl, roti.encoding_symbol_length as u64);
            if rl != l || recv_q != sender_q || roti.maximum_source_block_length as u64 != sender_q.0 {
                wit(
                    "FileDesc::new+get_fti",
                    input,
                    format!("receiver: L={} B'={} partition {:?}; sender: partition {:?}", rl, roti.maximum_source_block_length, recv_q, sender_q),
                    "the receiver derives the sender's partition and B' == A_L",
                );
                return true;
            }
            false
        }
        other => {
            wit("FileDesc::new+get_fti", input, format!("{:?}", other.map(|o| o.map(|x| x.1))), "Ok(Some(..))");
            true
        }
    }
}

/// C01: Raptor object above what flute's 40-bit F can carry but below Oti::max_transfer_length
fn case_raptor_above_wire(l: u64, e: u16, b: u16) -> bool {
    let input = format!("{{\"case\":\"raptor_above_wire\",\"fec\":1,\"l\":{},\"e\":{},\"b\":{}}}", l, e, b);
    let oti = Oti::new_raptor(e, b, 0, 1, 4).unwrap();
    let max = oti.max_transfer_length();
    match FileDesc::new(0, object(16, l, Some(oti)), &Oti::default(), None, false) {
        Err(_) => false,
        Ok(fd) => {
            let back = fti_roundtrip(&fd.oti, l);
            let announced = match &back { Ok(Some((_, rl))) => format!("{}", rl), o => format!("{:?}", o.as_ref().map(|_| ())) };
            if announced != format!("{}", l) {
                wit(
                    "FileDesc::new",
                    input,
                    format!("Ok (max_transfer_length()={}); the EXT_FTI flute writes for this object announces transfer length {}", max, announced),
                    "Err: transfer length above the 2^40 - 1 flute's Raptor EXT_FTI can carry",
                );
                return true;
            }
            false
        }
    }
}

/// the empty object under RaptorQ / Raptor: N == 0; Z == 0 is rejected by both get_fti, so FileDesc::new must announce Z >= 1
fn case_empty_object(fec: FECEncodingID) -> bool {
    let input = format!("{{\"case\":\"empty_object\",\"fec\":{},\"l\":0,\"e\":1400,\"b\":64}}", fec as u8);
    let fd = match FileDesc::new(0, object(0, 0, Some(raptor_family(fec, 1400, 64))), &Oti::default(), None, false) {
        Ok(fd) => fd,
        Err(_) => return false, // refused when added: no corrupted transmission
    };
    match fti_roundtrip(&fd.oti, 0) {
        Ok(Some(_)) => false,
        other => {
            wit(
                "FileDesc::new+get_fti",
                input,
                format!("FileDesc::new Ok with Z=0; receiver get_fti on the EXT_FTI of that object: {:?}", other.map(|o| o.map(|x| x.1))),
                "an accepted (empty) object is announced with an EXT_FTI the receiver accepts",
            );
            true
        }
    }
}


/// end to end: one empty object through Sender -> MultiReceiver (buffer writer); returns true when it is not delivered exactly once
fn case_empty_object_e2e(fec: FECEncodingID) -> bool {
    use crate::common::udpendpoint::UDPEndpoint;
    let input = format!("{{\"case\":\"empty_object_e2e\",\"fec\":{},\"l\":0,\"e\":1400,\"b\":64}}", fec as u8);
    let oti = raptor_family(fec, 1400, 64);
    let obj = ObjectDesc::create_from_buffer(Vec::new(), "application/octet-stream", &url::Url::parse("file:///empty").unwrap(), true,
                                             TransferConfig::default()).unwrap();
    let output = std::rc::Rc::new(crate::receiver::writer::ObjectWriterBufferBuilder::new(true));
    let mut receiver = crate::receiver::MultiReceiver::new(output.clone(), None, false);
    let endpoint = UDPEndpoint::new(None, "224.0.0.1".to_owned(), 5000);
    let mut sender = crate::sender::Sender::new(endpoint.clone(), 1, &oti, &Default::default());
    if sender.add_object(0, obj).is_err() {
        return false; // refused when added
    }
    sender.publish(std::time::SystemTime::now()).unwrap();
    let (mut pkts, mut rejected) = (0u32, 0u32);
    let mut first_err = String::new();
    for _ in 0..10_000 {
        let now = std::time::SystemTime::now();
        let data = sender.read(now);
        if data.is_none() && sender.get_objects_in_fdt().is_empty() {
            break;
        }
        if let Some(d) = data {
            pkts += 1;
            if let Err(e) = receiver.push(&endpoint, &d, now) {
                rejected += 1;
                if first_err.is_empty() {
                    first_err = format!("{:?}", e);
                }
            }
        }
        receiver.cleanup(now);
    }
    let objs = output.objects.borrow();
    let complete = objs.iter().filter(|o| o.borrow().complete && !o.borrow().error).count();
    if complete != 1 {
        wit(
            "Sender::add_object..MultiReceiver::push",
            input,
            format!("{} packets sent, {} rejected by the receiver (first: {}), {} object(s) opened, {} completed", pkts, rejected, first_err, objs.len(), complete),
            "the accepted empty object is completed exactly once",
        );
        return true;
    }
    false
}

fn json_u64(s: &str, key: &str) -> Option<u64> {
    let k = format!("\"{}\":", key);
    let p = s.find(&k)? + k.len();
    let rest = s[p..].trim_start();
    let end = rest.find(|c: char| !c.is_ascii_digit()).unwrap_or(rest.len());
    rest[..end].parse().ok()
}

fn fec_of(v: u64) -> FECEncodingID {
    if v == 6 { FECEncodingID::RaptorQ } else { FECEncodingID::Raptor }
}

#[test]
fn search() {
    std::panic::set_hook(Box::new(|_| {}));
    if let Ok(inp) = std::env::var("VERIF_REPLAY_INPUT") {
        let l = json_u64(&inp, "l").unwrap_or(0);
        let e = json_u64(&inp, "e").unwrap_or(1) as u16;
        let b = json_u64(&inp, "b").unwrap_or(1) as u16;
        let fec = fec_of(json_u64(&inp, "fec").unwrap_or(6));
        let bad = if inp.contains("raptor_above_wire") {
            case_raptor_above_wire(l, e, b)
        } else if inp.contains("empty_object_e2e") {
            case_empty_object_e2e(fec)
        } else if inp.contains("empty_object") {
            case_empty_object(fec)
        } else {
            check_recon(fec, l, e, b)
        };
        println!("WSTATS {{\"evaluations\":1,\"mode\":\"replay\"}}");
        assert!(!bad, "replayed input still fails");
        return;
    }
    let thorough = std::env::var("VERIF_TIER").map(|t| t == "thorough").unwrap_or(false);
    let mut evals: u64 = 0;
    let mut found = 0;
    // ---- C07: exhaustive small grid, both schemes (N <= 255 for RaptorQ is checked inside: beyond it FileDesc::new must refuse)
    let (lm, em, bm) = if thorough { (1200u64, 12u16, 40u16) } else { (300u64, 8u16, 20u16) };
    'grid: for fec in [FECEncodingID::RaptorQ, FECEncodingID::Raptor] {
        for e in 1..=em {
            for b in 1..=bm {
                for l in 0..=lm {
                    evals += 1;
                    if check_recon(fec, l, e, b) {
                        found += 1;
                        if found >= 3 {
                            break 'grid;
                        }
                    }
                }
            }
        }
    }
    // boundaries of Z: N == 255 / 256 (RaptorQ), N == 65535 / 65536 (Raptor), with unequal block sizes
    for (fec, l, e, b) in [
        (FECEncodingID::RaptorQ, 255 * 7 * 3, 3u16, 7u16), (FECEncodingID::RaptorQ, 255 * 7 * 3 + 1, 3, 7), (FECEncodingID::RaptorQ, 255 * 7 * 3 - 4, 3, 7),
        (FECEncodingID::RaptorQ, 100_000, 1400, 64), (FECEncodingID::RaptorQ, 1_000_003, 1424, 17),
        (FECEncodingID::Raptor, 65535 * 2 * 3, 3, 2), (FECEncodingID::Raptor, 65535 * 2 * 3 + 1, 3, 2), (FECEncodingID::Raptor, 65535 * 2 * 3 - 5, 3, 2),
        (FECEncodingID::Raptor, 100_000, 1400, 64), (FECEncodingID::Raptor, 1_000_003, 1424, 17),
    ] {
        evals += 1;
        if check_recon(fec, l as u64, e, b) {
            found += 1;
        }
    }
    // ---- C01: Raptor above the 40-bit F of flute's EXT_FTI (E = 4096, B = 8192: E*B*65535 > 2^40)
    evals += 1;
    if case_raptor_above_wire(1u64 << 40, 4096, 8192) {
        found += 1;
    }
    // ---- the empty object under RaptorQ / Raptor
    for fec in [FECEncodingID::RaptorQ, FECEncodingID::Raptor] {
        evals += 1;
        if case_empty_object(fec) {
            found += 1;
        }
        evals += 1;
        if case_empty_object_e2e(fec) {
            found += 1;
        }
    }
    // ---- observations outside the precondition of the unit (oti_in_kani_domain): Oti built through its public fields
    let rs2m = Oti { fec_encoding_id: FECEncodingID::ReedSolomonGF2M, fec_instance_id: 0, maximum_source_block_length: 64, encoding_symbol_length: 1400,
                     max_number_of_parity_symbols: 2, scheme_specific: None, inband_fti: true };
    match std::panic::catch_unwind(move || FileDesc::new(0, object(10, 10, Some(rs2m)), &Oti::default(), None, false).is_ok()) {
        Ok(ok) => obs("FileDesc::new with an RS GF(2^m) Oti", format!("returned ok={}", ok)),
        Err(e) => obs("FileDesc::new with an RS GF(2^m) Oti", format!("PANIC: {}", panic_text(e))),
    }
    let big_b = Oti { fec_encoding_id: FECEncodingID::ReedSolomonGF28UnderSpecified, fec_instance_id: 0, maximum_source_block_length: 70000, encoding_symbol_length: 65535,
                      max_number_of_parity_symbols: 0, scheme_specific: None, inband_fti: true };
    match std::panic::catch_unwind(move || big_b.max_transfer_length()) {
        Ok(v) => obs("Oti::max_transfer_length, RS under-specified, E=65535, B=70000 (public u32 field)", format!("returned {}", v)),
        Err(e) => obs("Oti::max_transfer_length, RS under-specified, E=65535, B=70000 (public u32 field)", format!("PANIC: {}", panic_text(e))),
    }
    println!("WSTATS {{\"evaluations\":{},\"mode\":\"search\"}}", evals);
    assert!(found == 0, "witness found");
}
