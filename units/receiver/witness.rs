// Native witness search for unit `receiver` (appended to src/receiver/receiver.rs in a scratch copy).
// C17.receiver.cleanup_fdt.stalled_unfinished_instances_released: after cleanup(now) no FDT instance that is still Receiving and has
// not seen a packet for longer than the object timeout remains in `fdt_receivers` (defect repaired by b1c9d96; kept as a regression search);
// C17.receiver.cleanup_fdt.receiving_instances_kept_iff_not_stalled: an unfinished instance that is NOT idle for longer than the timeout is kept.
use super::*;
use crate::common::oti;
use crate::receiver::writer::ObjectWriterBufferBuilder;

fn report(func: &str, input: String, observed: String, expected: String) {
    let observed = observed.replace('"', "'");
    println!("WITNESS {{\"fn\":\"{}\",\"input\":{},\"observed\":\"{}\",\"expected\":\"{}\"}}", func, input, observed, expected);
}

/// first symbol (ESI 0) of a 2-symbol FDT instance `id`: TOI 0, EXT_FDT(id), EXT_FTI in-band (No-Code, E = 4, transfer length 8).
/// The second symbol is never sent, so the instance never completes and never fails.
fn fdt_first_symbol(tsi: u64, id: u32) -> Vec<u8> {
    let o = oti::Oti::new_no_code(4, 8);
    let p = crate::common::pkt::Pkt { payload: vec![0x3Cu8; 4], transfer_length: 8, esi: 0, sbn: 0, toi: 0, fdt_id: Some(id), cenc: lct::Cenc::Null,
        inband_cenc: true, close_object: false, source_block_length: 2, sender_current_time: false };
    alc::new_alc_pkt(&o, &0u128, tsi, &p, crate::common::Profile::RFC6726, SystemTime::now())
}

/// `n` distinct FDT instance ids, one packet each, then a cleanup `idle_secs` later (object_timeout = `timeout_secs`)
fn check_cleanup_fdt(n: u32, timeout_secs: u64, idle_secs: u64) -> bool {
    let endpoint = UDPEndpoint::new(None, "224.0.0.1".to_owned(), 1234);
    let writer = Rc::new(ObjectWriterBufferBuilder::new(false));
    let config = Config { object_timeout: Some(Duration::from_secs(timeout_secs)), ..Default::default() };
    let mut r = Receiver::new(&endpoint, 1, writer, Some(config));
    let t0 = SystemTime::UNIX_EPOCH + Duration::from_secs(1_790_000_000);
    for id in 0..n {
        let bytes = fdt_first_symbol(1, id);
        let pkt = alc::parse_alc_pkt(&bytes).unwrap();
        let _ = r.push(&pkt, t0);
    }
    let created = r.fdt_receivers.len();
    let later = t0 + Duration::from_secs(idle_secs);
    r.cleanup(later);
    if idle_secs > timeout_secs { r.cleanup(later + Duration::from_secs(idle_secs)); }
    let stalled = r.fdt_receivers.values().filter(|f| f.state() == fdtreceiver::FDTState::Receiving).count();
    if std::env::var("VERIF_DEBUG").is_ok() { println!("DEBUG n={} created={} stalled after cleanup={}", n, created, stalled); }
    if idle_secs > timeout_secs && stalled > 0 {
        report("cleanup_fdt", format!("{{\"n\":{},\"timeout_secs\":{},\"idle_secs\":{}}}", n, timeout_secs, idle_secs),
               format!("{} FDT instances created by {} packets; {} still held in state Receiving after two cleanup() calls {} s and {} s after their last packet (object_timeout {} s)",
                       created, n, stalled, idle_secs, 2 * idle_secs, timeout_secs),
               "no unfinished FDT instance idle for longer than the object timeout remains after cleanup".to_string());
        return true;
    }
    if idle_secs <= timeout_secs && stalled != created {
        report("cleanup_fdt", format!("{{\"n\":{},\"timeout_secs\":{},\"idle_secs\":{}}}", n, timeout_secs, idle_secs),
               format!("{} FDT instances created; only {} left after a cleanup() {} s after their last packet (object_timeout {} s)", created, stalled, idle_secs, timeout_secs),
               "an unfinished FDT instance that is not idle for longer than the object timeout is kept".to_string());
        return true;
    }
    false
}

fn num(inp: &str, k: &str) -> u64 {
    inp.split(&format!("\"{}\":", k)).nth(1).unwrap().trim().split(|c: char| !c.is_ascii_digit()).next().unwrap().parse().unwrap()
}

#[test]
fn search() {
    if let Ok(inp) = std::env::var("VERIF_REPLAY_INPUT") {
        let bad = check_cleanup_fdt(num(&inp, "n") as u32, num(&inp, "timeout_secs"), num(&inp, "idle_secs"));
        println!("WSTATS {{\"evaluations\":1,\"mode\":\"replay\"}}");
        assert!(!bad, "replayed input still fails");
        return;
    }
    let mut evals = 0u64;
    let mut found = 0;
    for n in [1u32, 3, 50] {
        for (timeout_secs, idle_secs) in [(10u64, 5u64), (10, 10), (10, 11), (1, 3600), (10, 31_536_000)] {
            evals += 1;
            if found < 2 && check_cleanup_fdt(n, timeout_secs, idle_secs) { found += 1; }
        }
    }
    println!("WSTATS {{\"evaluations\":{},\"mode\":\"search\"}}", evals);
    assert!(found == 0, "witness found");
}
