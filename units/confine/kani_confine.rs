// appended to src/receiver/writer/objectwriterfs.rs (scratch copy only)
#[cfg(any(kani, test))]
#[allow(dead_code, unused_imports, unused_macros)]
mod verif_kani {
    use super::*;
    use crate::{vk_assume, vk_cover};
    use std::path::{Component, Path};

    const N: usize = 2;

    // @HARNESS id=C05.confine.lexical tier=quick kind=Kb props=C05 bound="every relative path of 0..=2 bytes over the alphabet {. / a} (url::Url::parse over-approximated: its path() may be any string), destination /d" timeout=1500
    /// confined_destination returns only paths strictly below the destination directory, without any `..` component
    #[cfg(kani)]
    #[kani::proof]
    #[kani::unwind(8)]
    fn confined_lexical() {
        h_confined_lexical(kani::any(), kani::any());
    }
    pub fn h_confined_lexical(buf: [u8; N], n: usize) {
        vk_assume!(n <= N);
        let mut i = 0;
        while i < N {
            vk_assume!(buf[i] == b'.' || buf[i] == b'/' || buf[i] == b'a');
            i += 1;
        }
        let s = match std::str::from_utf8(&buf[..n]) { Ok(s) => s, Err(_) => return };
        let dest = Path::new("/d");
        if let Some(p) = confined_destination(dest, s) {
            assert!(p.starts_with(dest));
            assert!(p.as_path() != dest);
            let mut depth: i32 = 0;
            for c in p.components() {
                match c {
                    Component::ParentDir => assert!(false),
                    Component::Normal(_) => depth += 1,
                    _ => {}
                }
            }
            assert!(depth >= 2);
            vk_cover!(n == 2);
        } else {
            vk_cover!(n == 1);
        }
    }
}
