// Native witness search for C05 (appended to src/receiver/writer/objectwriterfs.rs in a scratch copy).
// Every Content-Location is handed to a real ObjectWriterFS built on <tmp>/dest; afterwards nothing may exist in <tmp>
// except `dest` and the canary file, and the canary must be untouched.
use super::*;
use crate::receiver::writer::ObjectCacheControl;

fn meta(loc: &str) -> ObjectMetadata {
    ObjectMetadata { content_location: loc.to_string(), content_length: None, transfer_length: None, content_type: None,
        cache_control: ObjectCacheControl::NoCache, groups: None, md5: None, optel_propagator: None, oti: None, cenc: None, e_tag: None }
}

fn tree(p: &std::path::Path, out: &mut Vec<String>) {
    if let Ok(rd) = std::fs::read_dir(p) {
        for e in rd.flatten() {
            let path = e.path();
            out.push(path.to_string_lossy().to_string());
            if path.is_dir() { tree(&path, out); }
        }
    }
}

/// returns Some(description) when something outside dest was created / changed / deleted
fn check(loc: &str, outcome: u8) -> Option<String> {
    let tmp = tempfile::tempdir().unwrap();
    let root = tmp.path().join("root");
    let dest = root.join("sub").join("dest");
    std::fs::create_dir_all(&dest).unwrap();
    let canary = root.join("canary");
    std::fs::write(&canary, b"canary").unwrap();
    let sibling = root.join("sub").join("x");
    let builder = ObjectWriterFSBuilder::new(&dest, false).unwrap();
    let endpoint = UDPEndpoint::new(None, "224.0.0.1".to_owned(), 1234);
    let now = SystemTime::now();
    if let ObjectWriterBuilderResult::StoreObject(w) = builder.new_object_writer(&endpoint, &1, &1, &meta(loc), now) {
        let r = std::panic::catch_unwind(std::panic::AssertUnwindSafe(|| {
            if w.open(now).is_ok() {
                let _ = w.write(0, b"payload", now);
                match outcome { 0 => w.complete(now), 1 => w.error(now), _ => w.interrupted(now) }
            }
        }));
        if r.is_err() { return Some("panic".to_string()); }
    }
    let mut all = Vec::new();
    tree(&root, &mut all);
    let dest_s = dest.to_string_lossy().to_string();
    let allowed = [root.join("sub").to_string_lossy().to_string(), canary.to_string_lossy().to_string(), dest_s.clone()];
    for p in &all {
        if !(allowed.contains(p) || p.starts_with(&(dest_s.clone() + "/"))) {
            return Some(format!("created outside the destination directory: {}", p.replace(&root.to_string_lossy().to_string(), "<root>")));
        }
    }
    if std::fs::read(&canary).ok() != Some(b"canary".to_vec()) { return Some("canary file outside the destination was modified or removed".to_string()); }
    // "deletes files only inside the destination directory": the directory itself and its parents are not inside it
    if !dest.is_dir() { return Some("the destination directory itself was deleted".to_string()); }
    if !root.join("sub").is_dir() { return Some("the parent of the destination directory was deleted".to_string()); }
    let _ = sibling;
    None
}

/// An ABSOLUTE escape lands outside <tmp> altogether (`/vfq7abs/..`): the entries of the filesystem root and of the current
/// directory are compared before / after every location. Every name of the grammar carries the marker `vfq7` (or is one of
/// the two literal percent forms), so whatever a broken writer creates there is recognisable, reported and removed again.
fn root_listing() -> std::collections::BTreeSet<String> {
    let mut out = std::collections::BTreeSet::new();
    for d in ["/", "."] {
        if let Ok(rd) = std::fs::read_dir(d) {
            for e in rd.flatten() { out.insert(format!("{}{}", if d == "/" { "/" } else { "./" }, e.file_name().to_string_lossy())); }
        }
    }
    out
}

fn check_abs(loc: &str, outcome: u8) -> Option<String> {
    let before = root_listing();
    let r = check(loc, outcome);
    let after = root_listing();
    let new: Vec<String> = after.difference(&before).cloned().collect();
    let mut ours = Vec::new();
    for n in &new {
        let base = n.rsplit('/').next().unwrap_or("");
        if base.contains("vfq7") || base == "%2e%2e" || base == "..%2f" {
            ours.push(n.clone());
            let p = std::path::Path::new(n);
            if p.is_dir() { let _ = std::fs::remove_dir_all(p); } else { let _ = std::fs::remove_file(p); }
        }
    }
    if !ours.is_empty() {
        return Some(format!("created outside the destination directory, at an absolute location: {:?}", ours));
    }
    r
}

fn report(loc: &str, outcome: u8, obs: &str) {
    let hex: String = loc.bytes().map(|b| format!("{:02x}", b)).collect();
    println!("WITNESS {{\"fn\":\"open\",\"input\":{{\"location_hex\":\"{}\",\"location\":\"{}\",\"outcome\":{}}},\"observed\":\"{}\",\"expected\":\"nothing created, changed or deleted outside the destination directory\"}}",
        hex, loc.replace('\\', "\\\\").replace('"', "'"), outcome, obs.replace('"', "'"));
}

#[test]
fn search() {
    std::panic::set_hook(Box::new(|_| {}));
    if let Ok(inp) = std::env::var("VERIF_REPLAY_INPUT") {
        let hex = inp.split("\"location_hex\":").nth(1).unwrap().trim().trim_start_matches('"').split('"').next().unwrap().to_string();
        let bytes: Vec<u8> = (0..hex.len() / 2).map(|i| u8::from_str_radix(&hex[2 * i..2 * i + 2], 16).unwrap()).collect();
        let loc = String::from_utf8(bytes).unwrap();
        let outcome: u8 = inp.split("\"outcome\":").nth(1).unwrap().trim().split(|c: char| !c.is_ascii_digit()).next().unwrap().parse().unwrap();
        let r = check_abs(&loc, outcome);
        if let Some(o) = &r { report(&loc, outcome, o); }
        println!("WSTATS {{\"evaluations\":1,\"mode\":\"replay\"}}");
        assert!(r.is_none(), "replayed input still fails");
        return;
    }
    let thorough = std::env::var("VERIF_TIER").map(|t| t == "thorough").unwrap_or(false);
    // the grammar of the property's quantifier: prefixes x up to `depth` segments
    let prefixes = ["file:///", "file://host/", "http://h/", "http://h//", "x:", "x:/", "x://h/", "x://h//", "", "/", "//"];
    let segs = ["vfq7name", ".", "..", "", "%2e%2e", "..%2f", "vfq7a\\..\\vfq7b", "/vfq7abs", "..\\..\\vfq7x"];
    let mut evals = 0u64;
    let mut found = 0;
    for p in prefixes {
        // thorough tier: four segments for the five prefix shapes that reach the writer differently, three for the others (about 125 000 writer runs)
        let depth = if thorough && ["", "x:", "http://h/", "file:///", "//"].contains(&p) { 4 } else { 3 };
        let mut idx = vec![0usize; depth];
        loop {
            for d in 1..=depth {
                let loc = format!("{}{}", p, idx[..d].iter().map(|&i| segs[i]).collect::<Vec<_>>().join("/"));
                for outcome in 0..3u8 {
                    evals += 1;
                    if found < 4 {
                        if let Some(o) = check_abs(&loc, outcome) { report(&loc, outcome, &o); found += 1; }
                    }
                }
            }
            let mut i = 0;
            while i < depth { idx[i] += 1; if idx[i] < segs.len() { break; } idx[i] = 0; i += 1; }
            if i == depth { break; }
        }
    }
    println!("WSTATS {{\"evaluations\":{},\"mode\":\"search\"}}", evals);
    assert!(found == 0, "witness found");
}

// ---- second search: the CONTRACT of confined_destination (units/confine/unit.vrs) checked natively against std's own
// component split.  It exercises exactly the std::path facts the Verus unit trusts on this platform (T2c: Normal names are
// non-empty, separator-free, not "." / ".."; T4+T5: PathBuf::push of such a name appends one Normal component), for several
// shapes of destination path, and the None <==> "escaping component or no name" clause.
fn contract_violation(dest: &std::path::Path, s: &str) -> Option<String> {
    use std::path::Component as C;
    let comps: Vec<C> = std::path::Path::new(s).components().collect();
    let escaping = comps.iter().any(|c| !matches!(c, C::Normal(_) | C::CurDir));
    let names: Vec<&std::ffi::OsStr> = comps.iter().filter_map(|c| if let C::Normal(n) = c { Some(*n) } else { None }).collect();
    for n in &names {
        let b = n.as_encoded_bytes();
        if b.is_empty() || b.contains(&b'/') || b == b"." || b == b".." {
            return Some(format!("std::path yields the Normal name {:?} (trusted fact T2c of the unit is false)", n));
        }
    }
    let expect_none = escaping || names.is_empty();
    match confined_destination(dest, s) {
        None => if expect_none { None } else { Some("None for a location made of names and '.' only".to_string()) },
        Some(p) => {
            if expect_none {
                return Some(format!("Some({:?}) for a location with a parent/root/prefix component or without any name", p));
            }
            let mut want: Vec<C> = dest.components().collect();
            want.extend(names.iter().map(|n| C::Normal(n)));
            let got: Vec<C> = p.components().collect();
            if got != want {
                return Some(format!("components {:?}, expected those of dest followed by the names {:?}", got, want));
            }
            if !p.starts_with(dest) || got.len() <= dest.components().count() {
                return Some(format!("{:?} is not strictly below {:?}", p, dest));
            }
            None
        }
    }
}

fn report_contract(dest: &str, loc: &str, obs: &str) {
    let hex: String = loc.bytes().map(|b| format!("{:02x}", b)).collect();
    let dhex: String = dest.bytes().map(|b| format!("{:02x}", b)).collect();
    println!("WITNESS {{\"fn\":\"confined_destination\",\"input\":{{\"location_hex\":\"{}\",\"location\":\"{}\",\"dest_hex\":\"{}\",\"outcome\":0}},\"observed\":\"{}\",\"expected\":\"Some(dest followed by the Normal components of the location, in order) iff the location has only Normal/CurDir components and at least one Normal; None otherwise\"}}",
        hex, loc.replace('\\', "\\\\").replace('"', "'"), dhex, obs.replace('\\', "\\\\").replace('"', "'"));
}

#[test]
fn search_contract() {
    let dests = ["/d", "/d/", "/d/.", "d", "d/e", ".", "", "/", "./d", "../d"];
    if let Ok(inp) = std::env::var("VERIF_REPLAY_INPUT") {
        let field = |k: &str| -> Option<String> {
            let hex = inp.split(&format!("\"{}\":", k)).nth(1)?.trim().trim_start_matches('"').split('"').next()?.to_string();
            let bytes: Vec<u8> = (0..hex.len() / 2).map(|i| u8::from_str_radix(&hex[2 * i..2 * i + 2], 16).unwrap()).collect();
            String::from_utf8(bytes).ok()
        };
        let loc = field("location_hex").unwrap();
        let mut bad = false;
        for d in field("dest_hex").map(|d| vec![d]).unwrap_or_else(|| dests.iter().map(|d| d.to_string()).collect()) {
            if let Some(o) = contract_violation(std::path::Path::new(&d), &loc) { report_contract(&d, &loc, &o); bad = true; }
        }
        assert!(!bad, "replayed input still violates the contract of confined_destination");
        return;
    }
    let thorough = std::env::var("VERIF_TIER").map(|t| t == "thorough").unwrap_or(false);
    // every string of up to `maxlen` symbols over an alphabet that holds the separators, dots, and the characters the
    // property statement lists (percent-encoding, backslash, scheme colon), plus a two-byte character
    let alphabet = ["a", ".", "/", "\\", "%2e", ":", " ", "\u{e9}"];
    let maxlen = if thorough { 6 } else { 5 };
    let mut evals = 0u64;
    let mut found = 0;
    let mut idx: Vec<usize> = Vec::new();
    loop {
        let loc: String = idx.iter().map(|&i| alphabet[i]).collect();
        for d in dests {
            evals += 1;
            if found < 4 {
                if let Some(o) = contract_violation(std::path::Path::new(d), &loc) { report_contract(d, &loc, &o); found += 1; }
            }
        }
        // next string in length-lexicographic order
        let mut i = 0;
        while i < idx.len() { idx[i] += 1; if idx[i] < alphabet.len() { break; } idx[i] = 0; i += 1; }
        if i == idx.len() { idx.push(0); if idx.len() > maxlen { break; } }
    }
    println!("WCONTRACT {{\"evaluations\":{},\"mode\":\"search\"}}", evals);
    assert!(found == 0, "contract violation found");
}
