// Native witness search for unit `fecenc` (appended to src/fec/raptor.rs in a scratch copy): drives the REAL RaptorEncoder /
// RaptorQEncoder with the REAL third-party encoders behind them and checks what units/fecenc/unit.vrs proves against TRUSTED
// stand-ins -- k source shards with ESI 0..k-1, then exactly `parity` repair shards with ESI k.., in list order -- plus the clause
// of C08 the unit does not cover: "each source payload being the corresponding E-byte slice ... (last symbol possibly short or
// zero-padded)".
use super::*;
use crate::common::oti::RaptorQSchemeSpecific;
use crate::fec::raptorq::RaptorQEncoder;
use crate::fec::FecEncoder;

fn wit(f: &str, input: String, observed: String, expected: &str) {
    println!(
        "WITNESS {{\"fn\":\"{}\",\"input\":{},\"observed\":\"{}\",\"expected\":\"{}\"}}",
        f, input, observed.replace('"', "'").replace('\\', ""), expected
    );
}

fn block(len: usize) -> Vec<u8> {
    (0..len).map(|i| (i * 7 + 1) as u8).collect()
}

/// source shard i is bytes [i*e, (i+1)*e) of the block, the last one possibly short or zero-padded
fn is_e_slice(shard: &[u8], data: &[u8], i: usize, e: usize) -> bool {
    let a = (i * e).min(data.len());
    let b = ((i + 1) * e).min(data.len());
    let want = &data[a..b];
    shard.len() >= want.len() && shard.len() <= e && &shard[..want.len()] == want && shard[want.len()..].iter().all(|x| *x == 0)
}

/// returns the number of violations
fn check(scheme: &str, len: usize, e: usize, parity: usize) -> u32 {
    let k = (len + e - 1) / e;
    let data = block(len);
    let input = format!("{{\"scheme\":\"{}\",\"len\":{},\"e\":{},\"k\":{},\"parity\":{}}}", scheme, len, e, k, parity);
    let res = if scheme == "raptor" {
        RaptorEncoder::new(k, parity).encode(&data)
    } else {
        let s = RaptorQSchemeSpecific { source_blocks_length: 1, sub_blocks_length: 1, symbol_alignment: 1 };
        RaptorQEncoder::new(k, parity, e, &s).encode(&data)
    };
    let shards = match res {
        Ok(s) => s,
        Err(_) => return 0, // refused (raptor-code: k < 4 ...): nothing is emitted
    };
    let mut bad = 0;
    let esis: Vec<u32> = shards.iter().map(|s| s.esi()).collect();
    if shards.len() != k + parity || esis.iter().enumerate().any(|(i, x)| *x as usize != i) {
        wit("encode", input.clone(), format!("{} shards, ESIs {:?}", shards.len(), &esis[..esis.len().min(12)]), "k + parity shards, ESI == index");
        bad += 1;
    }
    if let Some(i) = (0..k.min(shards.len())).find(|&i| !is_e_slice(shards[i].data(), &data, i, e)) {
        wit(
            "encode",
            input,
            format!("source shard {} has {} bytes and is not bytes [{}, {}) of the block; shard sizes {:?}", i, shards[i].data().len(), i * e, (i + 1) * e,
                    shards.iter().take(k).map(|s| s.data().len()).collect::<Vec<_>>()),
            "source shard i is the E-byte slice i of the block (last one possibly short or zero-padded)",
        );
        bad += 1;
    }
    bad
}

fn json_u64(s: &str, key: &str) -> Option<u64> {
    let k = format!("\"{}\":", key);
    let p = s.find(&k)? + k.len();
    let rest = s[p..].trim_start();
    let end = rest.find(|c: char| !c.is_ascii_digit()).unwrap_or(rest.len());
    rest[..end].parse().ok()
}

#[test]
fn search() {
    if let Ok(inp) = std::env::var("VERIF_REPLAY_INPUT") {
        let scheme = if inp.contains("raptorq") { "raptorq" } else { "raptor" };
        let bad = check(scheme, json_u64(&inp, "len").unwrap() as usize, json_u64(&inp, "e").unwrap() as usize, json_u64(&inp, "parity").unwrap_or(0) as usize);
        println!("WSTATS {{\"evaluations\":1,\"mode\":\"replay\"}}");
        assert!(bad == 0, "replayed input still fails");
        return;
    }
    let mut evals = 0u64;
    let mut found = 0u32;
    for scheme in ["raptor", "raptorq"] {
        let mut found_scheme = 0;
        for e in [4usize, 16, 24] {
            for k in 4..=12usize {
                for short in [0usize, 1, 3] {
                    for parity in [0usize, 1, 3] {
                        if short >= e {
                            continue;
                        }
                        evals += 1;
                        if found_scheme < 2 {
                            found_scheme += check(scheme, k * e - short, e, parity);
                        }
                    }
                }
            }
        }
        found += found_scheme;
    }
    println!("WSTATS {{\"evaluations\":{},\"mode\":\"search\"}}", evals);
    assert!(found == 0, "witness found");
}
