// Native witness search for unit `blockencoder` (appended to src/sender/blockencoder.rs in a scratch copy).
// Drives the REAL BlockEncoder (new + read until None) over real FileDesc / ObjectDesc values and checks the packet
// sequence against the clauses that failed in the Verus unit (the first three are repaired in /repo -- commits 3ab7817,
// 9b99fd2, a99ff93 -- and are kept as regression checks; first_block_failed is an OPEN known finding and is still reported):
//   stream_short_reads   C20.blockencoder.read_block_stream.*            (one read() per block, short reads)
//   early_close_flag     C02.blockencoder.read.close_flag_only_on_the_last_packet_of_the_transfer
//   interleave_zero      C13.blockencoder.read.none_only_when_the_source_is_used_up / ...lone_packet...interleave_blocks_zero
//   first_block_failed   C08.blockencoder.read.lone_packet_only_for_an_empty_object.first_block_failed
//   stream_interrupted   C20.blockencoder.read_block_stream.an_interrupted_read_is_retried (regression check, repaired by 58c2b7a)
//   stream_cursor        C20.objectdesc.len.is_the_whole_source_length_whatever_the_cursor (regression check, no finding)
use super::*;
use crate::common::oti::Oti;
use crate::sender::objectdesc::{ObjectDesc, TransferConfig};
use crate::sender::toiallocator::ToiAllocator;

fn report(func: &str, input: String, observed: String, expected: String) {
    let observed = observed.replace('"', "'");
    let expected = expected.replace('"', "'");
    println!("WITNESS {{\"fn\":\"{}\",\"input\":{},\"observed\":\"{}\",\"expected\":\"{}\"}}", func, input, observed, expected);
}

/// A seekable in-memory reader that follows the documented `Read::read` contract and returns at most `chunk` bytes
/// per call (short reads); `fail_reads` makes every read fail with an I/O error (seek still works).
#[derive(Debug)]
struct ChunkReader {
    data: Vec<u8>,
    pos: usize,
    chunk: usize,
    fail_reads: bool,
    /// every other read() call answers ErrorKind::Interrupted (non-fatal, to be retried; nothing is consumed)
    interrupt: bool,
    calls: usize,
}

impl std::io::Read for ChunkReader {
    fn read(&mut self, buf: &mut [u8]) -> std::io::Result<usize> {
        if self.fail_reads {
            return Err(std::io::Error::new(std::io::ErrorKind::Other, "verif: read refused"));
        }
        self.calls += 1;
        if self.interrupt && self.calls % 2 == 1 {
            return Err(std::io::Error::new(std::io::ErrorKind::Interrupted, "verif: interrupted"));
        }
        let left = self.data.len().saturating_sub(self.pos);
        let n = buf.len().min(self.chunk).min(left);
        buf[..n].copy_from_slice(&self.data[self.pos..self.pos + n]);
        self.pos += n;
        Ok(n)
    }
}

impl std::io::Seek for ChunkReader {
    fn seek(&mut self, from: std::io::SeekFrom) -> std::io::Result<u64> {
        let p: i128 = match from {
            std::io::SeekFrom::Start(p) => p as i128,
            std::io::SeekFrom::End(d) => self.data.len() as i128 + d as i128,
            std::io::SeekFrom::Current(d) => self.pos as i128 + d as i128,
        };
        if p < 0 {
            return Err(std::io::Error::new(std::io::ErrorKind::InvalidInput, "negative seek"));
        }
        self.pos = p as usize;
        Ok(self.pos as u64)
    }
}

fn content(l: usize) -> Vec<u8> {
    (0..l).map(|i| (i as u8).wrapping_mul(7).wrapping_add(1)).collect()
}

fn url() -> url::Url {
    url::Url::parse("file:///verif.bin").unwrap()
}

fn mk_file(mut obj: Box<ObjectDesc>, oti: &Oti) -> Arc<filedesc::FileDesc> {
    let alloc = ToiAllocator::new(crate::sender::TOIMaxLength::ToiMax112, Some(1));
    obj.set_toi(ToiAllocator::allocate(&alloc));
    Arc::new(filedesc::FileDesc::new(0, obj, oti, None, false).unwrap())
}

fn file_from_buffer(data: &[u8], oti: &Oti) -> Arc<filedesc::FileDesc> {
    let obj = ObjectDesc::create_from_buffer(data.to_vec(), "application/octet-stream", &url(), false, TransferConfig::default()).unwrap();
    mk_file(obj, oti)
}

fn file_from_stream(data: &[u8], chunk: usize, fail_reads: bool, oti: &Oti) -> Arc<filedesc::FileDesc> {
    file_from_stream_at(data, chunk, fail_reads, 0, oti)
}

/// the stream is handed over with its cursor at `start` (compute_md5 == false, so nothing rewinds it before len())
fn file_from_stream_at(data: &[u8], chunk: usize, fail_reads: bool, start: usize, oti: &Oti) -> Arc<filedesc::FileDesc> {
    file_from_reader(ChunkReader { data: data.to_vec(), pos: start, chunk, fail_reads, interrupt: false, calls: 0 }, oti)
}

fn file_from_reader(rd: ChunkReader, oti: &Oti) -> Arc<filedesc::FileDesc> {
    let obj = ObjectDesc::create_from_stream(Box::new(rd), "application/octet-stream", &url(), false, TransferConfig::default()).unwrap();
    mk_file(obj, oti)
}

/// (sbn, esi, payload, close_object, source_block_length)
type P = (u32, u32, Vec<u8>, bool, u32);

/// one complete transfer: BlockEncoder::new, then read(false) until None; Err(text) when the real code panics
fn drain(file: Arc<filedesc::FileDesc>, interleave: usize, closable: bool) -> std::result::Result<Vec<P>, String> {
    let r = std::panic::catch_unwind(std::panic::AssertUnwindSafe(|| {
        let mut enc = BlockEncoder::new(file, interleave, closable).unwrap();
        let mut out: Vec<P> = Vec::new();
        while let Some(p) = enc.read(false) {
            out.push((p.sbn, p.esi, p.payload.clone(), p.close_object, p.source_block_length));
            if out.len() > 100_000 {
                break;
            }
        }
        out
    }));
    r.map_err(|e| {
        if let Some(s) = e.downcast_ref::<String>() {
            format!("panic: {}", s)
        } else if let Some(s) = e.downcast_ref::<&str>() {
            format!("panic: {}", s)
        } else {
            "panic".to_string()
        }
    })
}

fn short(ps: &[P]) -> String {
    let v: Vec<String> = ps
        .iter()
        .take(12)
        .map(|p| format!("(sbn {} esi {} len {}{})", p.0, p.1, p.2.len(), if p.3 { " B" } else { "" }))
        .collect();
    format!("{} packets: {}{}", ps.len(), v.join(" "), if ps.len() > 12 { " ..." } else { "" })
}

/// C20: same bytes, same OTI, buffer source vs. stream source returning at most `chunk` bytes per read
fn check_stream_short_reads(l: usize, e: u16, b: u16, chunk: usize, interleave: usize) -> bool {
    let oti = Oti::new_no_code(e, b);
    let data = content(l);
    let from_buffer = drain(file_from_buffer(&data, &oti), interleave, true);
    let from_stream = drain(file_from_stream(&data, chunk, false, &oti), interleave, true);
    if from_buffer != from_stream {
        let show = |r: &std::result::Result<Vec<P>, String>| match r {
            Ok(ps) => short(ps),
            Err(s) => s.clone(),
        };
        report(
            "read_block_stream",
            format!("{{\"case\":\"stream_short_reads\",\"l\":{},\"e\":{},\"b\":{},\"chunk\":{},\"interleave\":{}}}", l, e, b, chunk, interleave),
            format!("stream source (reads return <= {} bytes): {}", chunk, show(&from_stream)),
            format!("the packet sequence of the same bytes supplied as a buffer: {}", show(&from_buffer)),
        );
        return true;
    }
    false
}

/// C20 (an_interrupted_read_is_retried): a reader that answers Interrupted every other call yields the packets of the buffer
fn check_stream_interrupted(l: usize, e: u16, b: u16, chunk: usize) -> bool {
    let oti = Oti::new_no_code(e, b);
    let data = content(l);
    let rd = ChunkReader { data: data.clone(), pos: 0, chunk, fail_reads: false, interrupt: true, calls: 0 };
    let from_stream = drain(file_from_reader(rd, &oti), 2, true);
    let from_buffer = drain(file_from_buffer(&data, &oti), 2, true);
    if from_stream != from_buffer {
        let show = |r: &std::result::Result<Vec<P>, String>| match r {
            Ok(ps) => short(ps),
            Err(s) => s.clone(),
        };
        report(
            "read_block_stream",
            format!("{{\"case\":\"stream_interrupted\",\"l\":{},\"e\":{},\"b\":{},\"chunk\":{}}}", l, e, b, chunk),
            format!("reader answering ErrorKind::Interrupted every other call: {}", show(&from_stream)),
            format!("the packets of the buffer source: {}", show(&from_buffer)),
        );
        return true;
    }
    false
}

/// C20 (ObjectDataSource::len): the announced transfer length and the packets do not depend on where the cursor of the
/// stream was when the object was created
fn check_stream_cursor(l: usize, e: u16, b: u16, start: usize) -> bool {
    let oti = Oti::new_no_code(e, b);
    let data = content(l);
    let file = file_from_stream_at(&data, usize::MAX, false, start, &oti);
    let tl = file.object.transfer_length;
    let from_stream = drain(file, 1, true);
    let from_buffer = drain(file_from_buffer(&data, &oti), 1, true);
    if tl != l as u64 || from_stream != from_buffer {
        let show = |r: &std::result::Result<Vec<P>, String>| match r {
            Ok(ps) => short(ps),
            Err(s) => s.clone(),
        };
        report(
            "len",
            format!("{{\"case\":\"stream_cursor\",\"l\":{},\"e\":{},\"b\":{},\"start\":{}}}", l, e, b, start),
            format!("stream handed over at position {}: transfer_length {}, {}", start, tl, show(&from_stream)),
            format!("transfer_length {} and the packets of the buffer source: {}", l, show(&from_buffer)),
        );
        return true;
    }
    false
}

/// C02 / C08: the close-object flag (closabled_object == true, no forced close) may only be on the last packet
fn check_early_close_flag(l: usize, e: u16, b: u8, parity: u8, interleave: usize) -> bool {
    let oti = match Oti::new_reed_solomon_rs28(e, b, parity) {
        Ok(o) => o,
        Err(_) => return false,
    };
    let data = content(l);
    let ps = match drain(file_from_buffer(&data, &oti), interleave, true) {
        Ok(ps) => ps,
        Err(_) => return false, // reported by the other checks
    };
    if ps.is_empty() {
        return false;
    }
    if let Some(i) = ps.iter().position(|p| p.3) {
        if i + 1 != ps.len() {
            report(
                "read",
                format!("{{\"case\":\"early_close_flag\",\"l\":{},\"e\":{},\"b\":{},\"parity\":{},\"interleave\":{}}}", l, e, b, parity, interleave),
                format!("close-object flag on packet #{} of {}, followed by {} more packet(s) of the same transfer; {}", i + 1, ps.len(), ps.len() - i - 1, short(&ps)),
                "close-object flag only on the last packet of the transfer".to_string(),
            );
            return true;
        }
    } else {
        report(
            "read",
            format!("{{\"case\":\"early_close_flag\",\"l\":{},\"e\":{},\"b\":{},\"parity\":{},\"interleave\":{}}}", l, e, b, parity, interleave),
            format!("no packet carries the close-object flag; {}", short(&ps)),
            "close-object flag on the last packet of the (last) transfer".to_string(),
        );
        return true;
    }
    false
}

/// C13 / C08: with interleave_blocks == 0 nothing of a non-empty object is read
fn check_interleave_zero(l: usize, e: u16, b: u16) -> bool {
    let oti = Oti::new_no_code(e, b);
    let data = content(l);
    let r = drain(file_from_buffer(&data, &oti), 0, true);
    let bad = match &r {
        Ok(ps) => l > 0 && ps.iter().map(|p| p.2.len()).sum::<usize>() != l,
        Err(_) => true,
    };
    if bad {
        report(
            "read",
            format!("{{\"case\":\"interleave_zero\",\"l\":{},\"e\":{},\"b\":{}}}", l, e, b),
            match &r {
                Ok(ps) => format!("interleave_blocks = 0: {}", short(ps)),
                Err(s) => format!("interleave_blocks = 0: {}", s),
            },
            format!("the {} bytes of the object in source packets (Config::interleave_blocks: u8 is passed on unchecked)", l),
        );
    }
    bad
}

/// C08: the first block cannot be produced (stream read error) for a non-empty object
fn check_first_block_failed(l: usize, e: u16, b: u16) -> bool {
    let oti = Oti::new_no_code(e, b);
    let data = content(l);
    let r = drain(file_from_stream(&data, usize::MAX, true, &oti), 2, true);
    let bad = match &r {
        Ok(ps) => l > 0 && ps.iter().any(|p| p.3 && p.2.is_empty()),
        Err(_) => true,
    };
    if bad {
        report(
            "read",
            format!("{{\"case\":\"first_block_failed\",\"l\":{},\"e\":{},\"b\":{}}}", l, e, b),
            match &r {
                Ok(ps) => format!("stream whose reads fail: {}", short(ps)),
                Err(s) => format!("stream whose reads fail: {}", s),
            },
            format!("no empty close-object packet (and no panic) for an object of {} bytes", l),
        );
    }
    bad
}

fn num(inp: &str, k: &str) -> usize {
    inp.split(&format!("\"{}\":", k)).nth(1).unwrap().trim().split(|c: char| !c.is_ascii_digit()).next().unwrap().parse().unwrap()
}

#[test]
fn search() {
    std::panic::set_hook(Box::new(|_| {}));
    if let Ok(inp) = std::env::var("VERIF_REPLAY_INPUT") {
        let bad = if inp.contains("stream_short_reads") {
            check_stream_short_reads(num(&inp, "l"), num(&inp, "e") as u16, num(&inp, "b") as u16, num(&inp, "chunk"), num(&inp, "interleave"))
        } else if inp.contains("early_close_flag") {
            check_early_close_flag(num(&inp, "l"), num(&inp, "e") as u16, num(&inp, "b") as u8, num(&inp, "parity") as u8, num(&inp, "interleave"))
        } else if inp.contains("stream_interrupted") {
            check_stream_interrupted(num(&inp, "l"), num(&inp, "e") as u16, num(&inp, "b") as u16, num(&inp, "chunk"))
        } else if inp.contains("stream_cursor") {
            check_stream_cursor(num(&inp, "l"), num(&inp, "e") as u16, num(&inp, "b") as u16, num(&inp, "start"))
        } else if inp.contains("interleave_zero") {
            check_interleave_zero(num(&inp, "l"), num(&inp, "e") as u16, num(&inp, "b") as u16)
        } else {
            check_first_block_failed(num(&inp, "l"), num(&inp, "e") as u16, num(&inp, "b") as u16)
        };
        println!("WSTATS {{\"evaluations\":1,\"mode\":\"replay\"}}");
        assert!(!bad, "replayed input still fails");
        return;
    }
    let thorough = std::env::var("VERIF_TIER").map(|t| t == "thorough").unwrap_or(false);
    let mut evals: u64 = 0;
    let mut found = [0usize; 6];
    let cap = 2;

    // the scenarios named in the report first
    evals += 4;
    if check_stream_short_reads(8, 2, 2, 1, 1) { found[0] += 1; }
    if check_early_close_flag(2, 1, 1, 1, 2) { found[1] += 1; }
    if check_interleave_zero(8, 2, 2) { found[2] += 1; }
    if check_first_block_failed(8, 2, 2) { found[3] += 1; }

    // small grids
    let lm = if thorough { 24 } else { 12 };
    for l in 0..=lm {
        for e in 1..=3u16 {
            for b in 1..=3u16 {
                for chunk in [1usize, 2, 3, 5, 4096] {
                    for interleave in [1usize, 2] {
                        evals += 1;
                        if found[0] < cap && check_stream_short_reads(l, e, b, chunk, interleave) { found[0] += 1; }
                    }
                }
                for parity in 1..=2u8 {
                    for interleave in 1..=3usize {
                        evals += 1;
                        if found[1] < cap && check_early_close_flag(l, e, b as u8, parity, interleave) { found[1] += 1; }
                    }
                }
                for chunk in [1usize, 3, 4096] {
                    evals += 1;
                    if found[5] < cap && check_stream_interrupted(l, e, b, chunk) { found[5] += 1; }
                }
                for start in [1usize, 3, l] {
                    evals += 1;
                    if found[4] < cap && check_stream_cursor(l, e, b, start) { found[4] += 1; }
                }
                evals += 2;
                if found[2] < cap && check_interleave_zero(l, e, b) { found[2] += 1; }
                if found[3] < cap && check_first_block_failed(l, e, b) { found[3] += 1; }
            }
        }
    }
    println!("WSTATS {{\"evaluations\":{},\"mode\":\"search\"}}", evals);
    assert!(found.iter().all(|n| *n == 0), "witness found");
}
