// Native stand-in for unit `multireceiver` (appended to src/receiver/multireceiver.rs in a scratch copy).
// C18: "session listeners see exactly one open per session creation and exactly one close per session end (close-session packet, expiry or
// receiver drop), never a close without an open."  A recording listener is registered before any packet; scenarios end with the MultiReceiver
// being dropped, then the trace is checked per session key: never more closes than opens in any prefix, and opens == closes at the end.
use super::*;
use crate::common::{lct, oti};
use crate::receiver::writer::ObjectWriterBufferBuilder;
use std::cell::RefCell;
use std::time::Duration;

fn report(func: &str, input: String, observed: String, expected: String) {
    let observed = observed.replace('"', "'");
    println!("WITNESS {{\"fn\":\"{}\",\"input\":{},\"observed\":\"{}\",\"expected\":\"{}\"}}", func, input, observed, expected);
}

struct Recorder { trace: Rc<RefCell<Vec<(bool, ReceiverEndpoint)>>> }
impl MultiReceiverListener for Recorder {
    fn on_session_open(&self, endpoint: &ReceiverEndpoint) { self.trace.borrow_mut().push((true, endpoint.clone())); }
    fn on_session_closed(&self, endpoint: &ReceiverEndpoint) { self.trace.borrow_mut().push((false, endpoint.clone())); }
}

/// one data packet of object TOI 5 in session `tsi` (No-Code, in-band FTI); it creates the session
fn data_pkt(tsi: u64) -> Vec<u8> {
    let o = oti::Oti::new_no_code(4, 8);
    let p = crate::common::pkt::Pkt { payload: vec![0x5Au8; 4], transfer_length: 8, esi: 0, sbn: 0, toi: 5, fdt_id: None, cenc: lct::Cenc::Null,
        inband_cenc: true, close_object: false, source_block_length: 2, sender_current_time: false };
    alc::new_alc_pkt(&o, &0u128, tsi, &p, crate::common::Profile::RFC6726, SystemTime::now())
}

/// how each of the `n` sessions ends: 0 = receiver drop only, 1 = close-session packet, 2 = expiry seen by cleanup(), 3 = idle longer than the
/// session timeout but the MultiReceiver is dropped BEFORE any cleanup()
fn check_events(n: u64, ending: u8, timeout_ms: u64) -> bool {
    let trace = Rc::new(RefCell::new(Vec::new()));
    let endpoint = UDPEndpoint::new(None, "224.0.0.1".to_owned(), 1234);
    {
        let writer = Rc::new(ObjectWriterBufferBuilder::new(false));
        let config = Config { session_timeout: if ending >= 2 { Some(Duration::from_millis(timeout_ms)) } else { None }, ..Default::default() };
        let mut m = MultiReceiver::new(writer, Some(config), false);
        m.add_listener(Recorder { trace: trace.clone() });
        let now = SystemTime::now();
        for tsi in 1..=n {
            let _ = m.push(&endpoint, &data_pkt(tsi), now);
            let _ = m.push(&endpoint, &data_pkt(tsi), now);
        }
        match ending {
            1 => { for tsi in 1..=n { let _ = m.push(&endpoint, &alc::new_alc_pkt_close_session(&0u128, tsi), now); } }
            2 => { std::thread::sleep(Duration::from_millis(timeout_ms + 20)); m.cleanup(SystemTime::now()); }
            3 => { std::thread::sleep(Duration::from_millis(timeout_ms + 20)); }
            _ => {}
        }
        // the MultiReceiver is dropped here
    }
    let t = trace.borrow();
    let mut bad: Option<String> = None;
    for tsi in 1..=n {
        let key = ReceiverEndpoint { endpoint: endpoint.clone(), tsi };
        let mut open = 0i64;
        let (mut opens, mut closes) = (0, 0);
        for (is_open, k) in t.iter() {
            if *k != key { continue; }
            if *is_open { open += 1; opens += 1; } else { open -= 1; closes += 1; }
            if open < 0 && bad.is_none() { bad = Some(format!("tsi {}: a close without an open", tsi)); }
        }
        if (opens != 1 || closes != 1) && bad.is_none() { bad = Some(format!("tsi {}: {} open event(s), {} close event(s)", tsi, opens, closes)); }
    }
    if std::env::var("VERIF_DEBUG").is_ok() { println!("DEBUG n={} ending={} events={} bad={:?}", n, ending, t.len(), bad); }
    if let Some(b) = bad {
        let func = if ending == 2 { "cleanup" } else if ending == 1 { "push" } else { "drop" };
        report(func, format!("{{\"n\":{},\"ending\":{},\"timeout_ms\":{}}}", n, ending, timeout_ms), b,
               "exactly one open and one close per session, never a close without an open".to_string());
        return true;
    }
    false
}

fn num(inp: &str, k: &str) -> u64 {
    inp.split(&format!("\"{}\":", k)).nth(1).unwrap().trim().split(|c: char| !c.is_ascii_digit()).next().unwrap().parse().unwrap()
}

fn rss_kb() -> u64 {
    let s = std::fs::read_to_string("/proc/self/status").unwrap();
    s.lines().find(|l| l.starts_with("VmRSS:")).unwrap().split_whitespace().nth(1).unwrap().parse().unwrap()
}

/// C17 / C04 "memory held by a receiver is bounded by its configuration rather than by traffic": ONE datagram of a new object (No-Code,
/// in-band FTI announcing a source block of `b` one-byte symbols, transfer length 2^40) is pushed into a receiver configured with
/// object_max_cache_size = `limit` bytes; the resident memory of the process must not grow by more than limit + `slack_kb`.
fn check_alloc(b: u64, limit: u64) -> bool {
    let mut o = oti::Oti::new_no_code(1, 1000);
    o.maximum_source_block_length = b as u32;
    let p = crate::common::pkt::Pkt { payload: vec![9u8; 1], transfer_length: 1u64 << 40, esi: 0, sbn: 0, toi: 5, fdt_id: None, cenc: lct::Cenc::Null,
        inband_cenc: true, close_object: false, source_block_length: b as u32, sender_current_time: false };
    let data = alc::new_alc_pkt(&o, &0u128, 1, &p, crate::common::Profile::RFC6726, SystemTime::now());
    let output = Rc::new(ObjectWriterBufferBuilder::new(true));
    let mut config = crate::receiver::Config::default();
    config.object_max_cache_size = Some(limit as usize);
    let mut r = MultiReceiver::new(output.clone(), Some(config), false);
    let endpoint = UDPEndpoint::new(None, "224.0.0.1".to_owned(), 5000);
    let before = rss_kb();
    let _ = r.push(&endpoint, &data, SystemTime::now());
    let after = rss_kb();
    let grown_kb = after.saturating_sub(before);
    let slack_kb = 65536; // allocator / thread noise, far below the effect looked for
    if grown_kb > limit / 1024 + slack_kb {
        report("push", format!("{{\"alloc\":1,\"b\":{},\"limit\":{},\"datagram_bytes\":{}}}", b, limit, data.len()),
            format!("resident memory grew by {} kB after one datagram of {} bytes", grown_kb, data.len()),
            "one datagram allocates within the configured per object limit plus a bounded overhead".to_string());
        return true;
    }
    false
}

#[test]
fn search() {
    if let Ok(inp) = std::env::var("VERIF_REPLAY_INPUT") {
        if inp.contains("\"alloc\"") {
            let bad = check_alloc(num(&inp, "b"), num(&inp, "limit"));
            println!("WSTATS {{\"evaluations\":1,\"mode\":\"replay\"}}");
            assert!(!bad, "replayed input still fails");
            return;
        }
        let bad = check_events(num(&inp, "n"), num(&inp, "ending") as u8, num(&inp, "timeout_ms"));
        println!("WSTATS {{\"evaluations\":1,\"mode\":\"replay\"}}");
        assert!(!bad, "replayed input still fails");
        return;
    }
    let mut evals = 0u64;
    let mut found = 0;
    for ending in [0u8, 1, 2, 3] {
        for n in [1u64, 2, 5] {
            evals += 1;
            if found < 3 && check_events(n, ending, 5) { found += 1; }
        }
    }
    for b in [1000u64, 20_000_000] {
        evals += 1;
        if check_alloc(b, 1000) { found += 1; }
    }
    println!("WSTATS {{\"evaluations\":{},\"mode\":\"search\"}}", evals);
    assert!(found == 0, "witness found");
}
