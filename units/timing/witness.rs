// Native witness search for unit `timing` (appended to src/sender/filedesc.rs in a scratch copy).
// Each case drives the REAL FileDesc / TransferInfo code with a virtual clock and prints a WITNESS line when the
// behaviour violates the contract of units/timing/unit.vrs.
use super::*;
use crate::sender::objectdesc::{CarouselRepeatMode, ObjectDesc, TargetAcquisition, TransferConfig};
use std::time::{Duration, UNIX_EPOCH};

fn t(secs: u64) -> SystemTime {
    UNIX_EPOCH + Duration::from_secs(1_790_000_000 + secs)
}

fn file(len: usize, esl: u16, config: TransferConfig) -> FileDesc {
    let object = ObjectDesc::create_from_buffer(
        vec![0u8; len],
        "application/octet-stream",
        &url::Url::parse("file:///w.bin").unwrap(),
        false,
        config,
    )
    .unwrap();
    let transfer_start_time = object.config.transfer_start_time.clone();
    // same initial TransferInfo as FileDesc::new (which additionally needs an allocated TOI)
    FileDesc {
        priority: 0,
        object,
        oti: oti::Oti::new_no_code(esl, 64),
        fdt_id: None,
        sender_current_time: false,
        transfer_info: RwLock::new(TransferInfo {
            transferring: false,
            transfer_count: 0,
            last_transfer_start_time: None,
            last_transfer_end_time: None,
            total_nb_transfer: 0,
            next_transfer_timestamp: None,
            packet_transmission_tick: None,
            transfer_start_time,
        }),
        published: AtomicBool::new(true),
        toi: 1,
    }
}

fn cfg(max: u32, carousel: Option<CarouselRepeatMode>, ta: Option<TargetAcquisition>) -> TransferConfig {
    TransferConfig {
        max_transfer_count: max,
        carousel_mode: carousel,
        target_acquisition: ta,
        ..Default::default()
    }
}

fn panics<F: FnOnce() + std::panic::UnwindSafe>(f: F) -> Option<String> {
    match std::panic::catch_unwind(f) {
        Ok(()) => None,
        Err(e) => Some(
            e.downcast_ref::<String>()
                .cloned()
                .or_else(|| e.downcast_ref::<&str>().map(|s| s.to_string()))
                .unwrap_or_else(|| "panic".to_string()),
        ),
    }
}

fn wit(f: &str, case: &str, input: &str, observed: &str, expected: &str) {
    println!(
        "WITNESS {{\"fn\":\"{}\",\"input\":{{\"case\":\"{}\",{}}},\"observed\":\"{}\",\"expected\":\"{}\"}}",
        f, case, input, observed.replace('"', "'"), expected
    );
}

/// returns true when the case exhibits a violation
fn run_case(case: &str) -> bool {
    match case {
        // C14 "an empty object ... neither crash": dur_div precondition nb_packets > 0
        "empty_within_duration" => {
            let r = panics(|| {
                let f = file(0, 1424, cfg(1, None, Some(TargetAcquisition::WithinDuration(Duration::from_secs(1)))));
                f.transfer_started(t(0));
            });
            if let Some(m) = r {
                wit("init", case, "\"transfer_length\":0,\"encoding_symbol_length\":1424,\"target_acquisition\":\"WithinDuration(1s)\"", &m, "no panic");
                return true;
            }
            false
        }
        "empty_within_time_past" => {
            let r = panics(|| {
                let f = file(0, 1424, cfg(1, None, Some(TargetAcquisition::WithinTime(t(0)))));
                f.transfer_started(t(10));
            });
            if let Some(m) = r {
                wit("init", case, "\"transfer_length\":0,\"encoding_symbol_length\":1424,\"target_acquisition\":\"WithinTime(now-10s)\"", &m, "no panic");
                return true;
            }
            false
        }
        // u64::div_ceil(0): encoding_symbol_length == 0 is accepted by Oti::new_no_code; FileDesc::new rejects it only
        // for non-empty objects (max_transfer_length() == 0)
        "empty_symbol_length_zero" => {
            let r = panics(|| {
                let f = file(0, 0, cfg(1, None, Some(TargetAcquisition::WithinDuration(Duration::from_secs(1)))));
                f.transfer_started(t(0));
            });
            if let Some(m) = r {
                wit("init", case, "\"transfer_length\":0,\"encoding_symbol_length\":0,\"target_acquisition\":\"WithinDuration(1s)\"", &m, "no panic");
                return true;
            }
            false
        }
        // control: a deadline in the past with a non-empty object is fine (tick 0)
        "nonempty_within_time_past" => {
            let r = panics(|| {
                let f = file(3000, 1424, cfg(1, None, Some(TargetAcquisition::WithinTime(t(0)))));
                f.transfer_started(t(10));
                assert_eq!(f.get_next_transfer_timestamp(), Some(t(10)));
                f.inc_next_transfer_timestamp();
                assert_eq!(f.get_next_transfer_timestamp(), Some(t(10)));
            });
            if let Some(m) = r {
                wit("init", case, "\"transfer_length\":3000,\"target_acquisition\":\"WithinTime(now-10s)\"", &m, "no panic, tick 0");
                return true;
            }
            false
        }
        // C14 carousel gap, read literally: with max_transfer_count = 2 the second transfer of a round starts
        // without waiting for the configured delay
        "carousel_burst" => {
            let f = file(3000, 1424, cfg(2, Some(CarouselRepeatMode::DelayBetweenTransfers(Duration::from_secs(10))), None));
            assert!(f.should_transfer_now(0, FDTPublishMode::FullFDT, t(0)));
            f.transfer_started(t(0));
            f.transfer_done(t(1));
            let again = f.should_transfer_now(0, FDTPublishMode::FullFDT, t(1));
            if again {
                wit("should_transfer_now", case, "\"max_transfer_count\":2,\"carousel\":\"DelayBetweenTransfers(10s)\",\"last_end\":\"T+1s\",\"now\":\"T+1s\",\"transfer_count\":1", "true (gap 0 s)", "false until now - last_end >= 10 s");
                return true;
            }
            false
        }
        // control: with max_transfer_count = 1 the gap is respected and a zero delay needs the clock to move
        "carousel_gap_default" => {
            let f = file(3000, 1424, cfg(1, Some(CarouselRepeatMode::DelayBetweenTransfers(Duration::from_secs(10))), None));
            f.transfer_started(t(0));
            f.transfer_done(t(1));
            let early = f.should_transfer_now(0, FDTPublishMode::FullFDT, t(11));
            let due = f.should_transfer_now(0, FDTPublishMode::FullFDT, t(12));
            let z = file(3000, 1424, cfg(1, Some(CarouselRepeatMode::DelayBetweenTransfers(Duration::from_secs(0))), None));
            z.transfer_started(t(0));
            z.transfer_done(t(0));
            let same_instant = z.should_transfer_now(0, FDTPublishMode::FullFDT, t(0));
            let later = z.should_transfer_now(0, FDTPublishMode::FullFDT, t(1));
            if early || !due || same_instant || !later {
                wit("should_transfer_now", case, "\"max_transfer_count\":1", &format!("early={} due={} same_instant={} later={}", early, due, same_instant, later), "false true false true");
                return true;
            }
            false
        }
        // transfer_count never resets for a carousel object with max_transfer_count == 0 ...
        "carousel_max0_counter_grows" => {
            let f = file(10, 1424, cfg(0, Some(CarouselRepeatMode::DelayBetweenTransfers(Duration::from_secs(0))), None));
            for i in 0..5u64 {
                assert!(f.should_transfer_now(0, FDTPublishMode::FullFDT, t(2 * i + 1)));
                f.transfer_started(t(2 * i + 1));
                f.transfer_done(t(2 * i + 2));
            }
            let c = f.transfer_info.read().unwrap().transfer_count;
            // ... so after 2^32 - 1 transfers `transfer_count += 1` overflows (panic with overflow checks on)
            f.transfer_info.write().unwrap().transfer_count = u32::MAX;
            let r = panics(move || {
                f.transfer_started(t(100));
                f.transfer_done(t(101));
            });
            if c == 5 && r.is_some() {
                wit("done", case, "\"max_transfer_count\":0,\"carousel\":\"DelayBetweenTransfers(0s)\",\"transfer_count\":4294967295", &format!("transfer_count after 5 transfers = {} (never reset); at u32::MAX: {}", c, r.unwrap()), "counter bounded by max_transfer_count, no panic");
                return true;
            }
            false
        }
        _ => panic!("unknown case {}", case),
    }
}

const CASES: [&str; 7] = [
    "empty_within_duration",
    "empty_within_time_past",
    "empty_symbol_length_zero",
    "nonempty_within_time_past",
    "carousel_burst",
    "carousel_gap_default",
    "carousel_max0_counter_grows",
];

#[test]
fn search() {
    std::panic::set_hook(Box::new(|_| {}));
    if let Ok(inp) = std::env::var("VERIF_REPLAY_INPUT") {
        let case = inp.split("\"case\":").nth(1).unwrap().trim().trim_start_matches('"').split('"').next().unwrap().to_string();
        let bad = run_case(&case);
        println!("WSTATS {{\"evaluations\":1,\"mode\":\"replay\"}}");
        assert!(!bad, "replayed input still fails");
        return;
    }
    let mut found = 0;
    // two cases lie outside the quantifier of C14 / C12 (configuration errors stated as preconditions in unit.vrs: a symbol length of 0,
    // max_transfer_count == 0 with a carousel); they stay replayable and run in the search only on request
    let with_precondition_cases = std::env::var("VERIF_PRECONDITION_CASES").is_ok();
    for c in CASES.iter() {
        if !with_precondition_cases && (*c == "empty_symbol_length_zero" || *c == "carousel_max0_counter_grows") {
            continue;
        }
        if run_case(c) {
            found += 1;
        }
    }
    println!("WSTATS {{\"evaluations\":{},\"mode\":\"search\"}}", CASES.len());
    assert!(found == 0, "witness found");
}
