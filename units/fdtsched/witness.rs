// Native witness search for unit `fdtsched` (appended to src/sender/fdt.rs in a scratch copy).
// Each case drives the REAL Fdt / Sender code with a virtual clock and prints a WITNESS line when the behaviour
// violates the contract of units/fdtsched/unit.vrs (or the configuration precondition it had to assume).
use super::*;
use crate::common::alc;
use crate::sender::objectdesc::{ObjectDesc, TransferConfig};
use crate::sender::observer::ObserverList;
use std::time::{Duration, UNIX_EPOCH};

fn t_ns(ns: u64) -> SystemTime {
    UNIX_EPOCH + Duration::from_secs(1_790_000_000) + Duration::from_nanos(ns)
}

fn wit(f: &str, case: &str, input: &str, observed: &str, expected: &str) {
    println!(
        "WITNESS {{\"fn\":\"{}\",\"input\":{{\"case\":\"{}\",{}}},\"observed\":\"{}\",\"expected\":\"{}\"}}",
        f, case, input, observed, expected
    );
}

fn new_fdt(oti: &oti::Oti, fdtid: u32, duration: Duration, mode: FDTPublishMode) -> Fdt {
    Fdt::new(
        1,
        fdtid,
        oti,
        lct::Cenc::Null,
        duration,
        CarouselRepeatMode::DelayBetweenTransfers(Duration::from_secs(1)),
        true,
        ObserverList::new(),
        TOIMaxLength::ToiMax112,
        Some(1),
        None,
        mode,
    )
}

fn obj(len: usize) -> Box<ObjectDesc> {
    ObjectDesc::create_from_buffer(
        vec![0u8; len],
        "application/octet-stream",
        &url::Url::parse("file:///w.bin").unwrap(),
        false,
        TransferConfig { ..Default::default() },
    )
    .unwrap()
}

const CASES: [&str; 4] = ["obt_publish_fails", "republish_10s", "republish_30s", "start_id_2_20"];

/// returns true when the case exhibits a violation
fn run_case(case: &str) -> bool {
    match case {
        // C11.fdt.get_next_file_transfer.being_transferred_mode_instance_pending_when_object_starts:
        // the FDT XML (> 255 bytes) does not fit the session OTI (1 x 1 x 255 bytes): publish fails inside
        // get_next_file_transfer, `.ok()` swallows the error, the object starts with no FDT instance pending
        "obt_publish_fails" => {
            let oti = oti::Oti::new_reed_solomon_rs28(1, 1, 1).unwrap();
            let mut fdt = new_fdt(&oti, 1, Duration::from_secs(3600), FDTPublishMode::ObjectsBeingTransferred);
            let added = fdt.add_object(0, obj(100));
            if added.is_err() {
                return false;
            }
            let now = t_ns(0);
            let publish_alone = fdt.publish(now).is_err();
            let file = fdt.get_next_file_transfer(0, now);
            if file.is_some() && !fdt.need_transfer_fdt() {
                wit(
                    "Fdt::get_next_file_transfer",
                    case,
                    "\"oti\":\"new_reed_solomon_rs28(1,1,1)\",\"mode\":\"ObjectsBeingTransferred\",\"object_len\":100",
                    &format!("object handed out for transmission, need_transfer_fdt()==false, publish() is_err=={}", publish_alone),
                    "an FDT instance listing the object is pending when the object starts",
                );
                return true;
            }
            false
        }
        // C10.fdt.current_fdt_will_expire.republish_window_opens_before_expiry
        "republish_10s" | "republish_30s" => {
            let secs = if case == "republish_10s" { 10 } else { 30 };
            let oti: oti::Oti = Default::default();
            let mut fdt = new_fdt(&oti, 1, Duration::from_secs(secs), FDTPublishMode::FullFDT);
            fdt.publish(t_ns(0)).unwrap();
            // the FDT session takes the instance (current_fdt_transfer is set, the queue is empty again)
            let f = fdt.get_next_fdt_transfer(t_ns(0)).unwrap();
            fdt.transfer_done(f, t_ns(1));
            let just_before = t_ns(secs * 1_000_000_000 - 1);
            let r = fdt.current_fdt_will_expire(just_before);
            if !r {
                wit(
                    "Fdt::current_fdt_will_expire",
                    case,
                    &format!("\"fdt_duration_s\":{},\"last_publish_ns\":0,\"now_ns\":{}", secs, secs * 1_000_000_000 - 1),
                    "false 1 ns before the end of the validity: no poll before expiry republishes",
                    "true (instance superseded before it expires)",
                );
                return true;
            }
            false
        }
        // configuration precondition fdtid < 2^20 (Fdt::inv): the first instance carries the unmasked start id
        "start_id_2_20" => {
            let oti: oti::Oti = Default::default();
            let start: u32 = 0x10_0001;
            let mut fdt = new_fdt(&oti, start, Duration::from_secs(3600), FDTPublishMode::FullFDT);
            fdt.publish(t_ns(0)).unwrap();
            let f = fdt.get_next_fdt_transfer(t_ns(0)).unwrap();
            let mut enc = crate::sender::blockencoder::BlockEncoder::new(f.clone(), 1, false).unwrap();
            let pkt = enc.read(false).unwrap();
            let data = alc::new_alc_pkt(&f.oti, &0u128, 1, &pkt, crate::common::Profile::RFC6726, t_ns(0));
            let parsed = alc::parse_alc_pkt(&data);
            let observed = match &parsed {
                Ok(p) => match &p.fdt_info {
                    Some(i) => format!("EXT_FDT version={} fdt_instance_id={}", i.version, i.fdt_instance_id),
                    None => "no EXT_FDT in the FDT packet".to_string(),
                },
                Err(_) => "FDT packet does not parse".to_string(),
            };
            let ok = matches!(&parsed, Ok(p) if p.fdt_info.as_ref().map(|i| i.version == 2 && i.fdt_instance_id == (start & 0xFFFFF)).unwrap_or(false));
            if !ok {
                wit(
                    "Fdt::publish",
                    case,
                    &format!("\"fdt_start_id\":{}", start),
                    &observed,
                    "EXT_FDT version=2 fdt_instance_id=start id modulo 2^20",
                );
                return true;
            }
            false
        }
        _ => false,
    }
}

#[test]
fn search() {
    std::panic::set_hook(Box::new(|_| {}));
    if let Ok(inp) = std::env::var("VERIF_REPLAY_INPUT") {
        let case = inp.split("\"case\":").nth(1).unwrap().trim().trim_start_matches('"').split('"').next().unwrap().to_string();
        let bad = run_case(&case);
        println!("WSTATS {{\"evaluations\":1,\"mode\":\"replay\"}}");
        assert!(!bad, "replayed input still fails");
        return;
    }
    let mut found = 0;
    for c in CASES.iter() {
        if run_case(c) {
            found += 1;
        }
    }
    println!("WSTATS {{\"evaluations\":{},\"mode\":\"search\"}}", CASES.len());
    assert!(found == 0, "witness found");
}
