// Native witness search for unit `ringbuffer` (appended to src/tools/ringbuffer.rs in a scratch copy).
//  (1) differential test of the real RingBuffer against a VecDeque FIFO of capacity size-1 (the contract of
//      unit.vrs: write accepts min(len, free) bytes, read delivers min(len, stored) oldest bytes in order,
//      WouldBlock iff nothing readable and !finish, Ok(0) iff nothing readable and finish);
//  (2) end-to-end scenarios through Receiver::push_data (network input) for the two call-site findings:
//      empty first compressed block -> RingBuffer::new(0); ring never drained -> decode_write_pkt spins.
// Replay: VERIF_REPLAY_INPUT = {"kind":"ring","size":N,"seed":S,"nops":K} | {"kind":"e2e","scenario":"<name>"}
use super::*;
use std::collections::VecDeque;
use std::io::{Read, Write};

fn report(func: &str, input: String, observed: String, expected: String) {
    println!(
        "WITNESS {{\"fn\":\"{}\",\"input\":{},\"observed\":\"{}\",\"expected\":\"{}\"}}",
        func, input, observed, expected
    );
}

struct Rng(u64);
impl Rng {
    fn next(&mut self) -> u64 {
        self.0 ^= self.0 << 13;
        self.0 ^= self.0 >> 7;
        self.0 ^= self.0 << 17;
        self.0
    }
}

fn json_u64(s: &str, key: &str) -> Option<u64> {
    let k = format!("\"{}\":", key);
    let p = s.find(&k)? + k.len();
    let rest = s[p..].trim_start();
    let end = rest.find(|c: char| !c.is_ascii_digit()).unwrap_or(rest.len());
    rest[..end].parse().ok()
}

fn json_str(s: &str, key: &str) -> Option<String> {
    let k = format!("\"{}\":", key);
    let p = s.find(&k)? + k.len();
    let rest = s[p..].trim_start().strip_prefix('"')?;
    Some(rest[..rest.find('"')?].to_string())
}

/// one deterministic op sequence; returns Some((fn, observed, expected)) at the first disagreement
fn run_ring(size: usize, seed: u64, nops: usize) -> Option<(String, String, String)> {
    let mut r = Rng(0x9E3779B97F4A7C15 ^ (seed.wrapping_mul(0x2545F4914F6CDD1D) | 1));
    let cap = size.saturating_sub(1);
    let mut model: VecDeque<u8> = VecDeque::new();
    let mut finished = false;
    let mut next_byte: u8 = 1;
    let ring = std::panic::catch_unwind(|| RingBuffer::new(size));
    let mut ring = match ring {
        Ok(x) => x,
        Err(_) => return Some(("new".into(), "panic".into(), "a ring".into())),
    };
    for step in 0..nops {
        let op = r.next() % 16;
        let len = (r.next() % (2 * size as u64 + 3)) as usize;
        if op < 7 {
            let data: Vec<u8> = (0..len)
                .map(|_| {
                    next_byte = next_byte.wrapping_add(1);
                    next_byte
                })
                .collect();
            let exp = std::cmp::min(len, cap - model.len());
            let got = std::panic::catch_unwind(std::panic::AssertUnwindSafe(|| ring.write(&data)));
            match got {
                Ok(Ok(n)) if n == exp => model.extend(&data[..n]),
                Ok(x) => return Some(("write".into(), format!("step {} {:?}", step, x.map_err(|e| e.kind())), format!("Ok({})", exp))),
                Err(_) => return Some(("write".into(), format!("step {} panic (len {})", step, len), format!("Ok({})", exp))),
            }
        } else if op < 15 {
            let mut buf = vec![0xEEu8; len];
            let exp_n = std::cmp::min(len, model.len());
            let got = std::panic::catch_unwind(std::panic::AssertUnwindSafe(|| ring.read(&mut buf)));
            match got {
                Err(_) => return Some(("read".into(), format!("step {} panic", step), format!("n={}", exp_n))),
                Ok(Err(e)) => {
                    if !(exp_n == 0 && !finished && e.kind() == std::io::ErrorKind::WouldBlock) {
                        return Some(("read".into(), format!("step {} Err({:?})", step, e.kind()), format!("Ok({})", exp_n)));
                    }
                }
                Ok(Ok(n)) => {
                    let exp: Vec<u8> = model.iter().take(exp_n).cloned().collect();
                    let ok = n == exp_n && (n > 0 || finished) && buf[..n] == exp[..] && buf[n..].iter().all(|b| *b == 0xEE);
                    if !ok {
                        return Some(("read".into(), format!("step {} Ok({}) {:?}", step, n, &buf[..n]), format!("Ok({}) {:?}", exp_n, exp)));
                    }
                    model.drain(..n);
                }
            }
        } else {
            ring.finish();
            finished = true;
        }
        let _ = ring.flush();
    }
    None
}

fn check_ring(size: usize, seed: u64, nops: usize) -> bool {
    match run_ring(size, seed, nops) {
        None => false,
        Some((f, obs, exp)) => {
            report(&f, format!("{{\"kind\":\"ring\",\"size\":{},\"seed\":{},\"nops\":{}}}", size, seed, nops), obs, exp);
            true
        }
    }
}

// ---------------------------------------------------------------- end to end (network input)
fn datagram(e: u16, tl: u64, sbn: u32, payload: Vec<u8>) -> Vec<u8> {
    use crate::common::{alc, lct, oti, pkt, Profile};
    let o = oti::Oti::new_no_code(e, 1);
    let p = pkt::Pkt {
        payload,
        transfer_length: tl,
        esi: 0,
        sbn,
        toi: lct::TOI_FDT,
        fdt_id: Some(1),
        cenc: lct::Cenc::Zlib,
        inband_cenc: true,
        close_object: false,
        source_block_length: 1,
        sender_current_time: false,
    };
    alc::new_alc_pkt(&o, &0u128, 1, &p, Profile::RFC6726, std::time::SystemTime::now())
}

/// datagrams of a scenario (all: TOI 0, EXT_FDT, EXT_CENC = zlib, EXT_FTI No-Code, one symbol per block)
fn scenario(name: &str) -> Option<Vec<Vec<u8>>> {
    match name {
        // first (and only needed) datagram carries an EMPTY encoding symbol: first source block = 0 bytes
        "empty_first_block" => Some(vec![datagram(1, 2, 0, vec![]), datagram(1, 2, 1, vec![0x78])]),
        // complete zlib stream of "" followed by padding: after StreamEnd flate2 never pulls from the ring again
        "stream_end_then_padding" => {
            let mut b0 = vec![0x78, 0x9c, 0x03, 0x00, 0x00, 0x00, 0x00, 0x01];
            b0.resize(16, 0xAA);
            Some(vec![datagram(16, 48, 0, b0), datagram(16, 48, 1, vec![0xAA; 16]), datagram(16, 48, 2, vec![0xAA; 16])])
        }
        _ => None,
    }
}

/// pushes the datagrams into a fresh Receiver on a helper thread; "ok" | "panic: .." | "spin"
fn run_e2e(name: &str) -> String {
    let dgs = scenario(name).expect("unknown scenario");
    let (tx, rx) = std::sync::mpsc::channel();
    std::thread::spawn(move || {
        let r = std::panic::catch_unwind(move || {
            use crate::common::udpendpoint::UDPEndpoint;
            let builder = std::rc::Rc::new(crate::receiver::writer::ObjectWriterBufferBuilder::new(false));
            let mut rcv = crate::receiver::Receiver::new(&UDPEndpoint::new(None, "224.0.0.1".to_string(), 1234), 1, builder, None);
            for d in dgs.iter() {
                let _ = rcv.push_data(d, std::time::SystemTime::now());
            }
        });
        let _ = tx.send(match r {
            Ok(_) => "ok".to_string(),
            Err(e) => format!(
                "panic: {}",
                e.downcast_ref::<String>().cloned().or(e.downcast_ref::<&str>().map(|s| s.to_string())).unwrap_or_default()
            ),
        });
    });
    match rx.recv_timeout(std::time::Duration::from_secs(4)) {
        Ok(s) => s,
        Err(_) => "spin: push_data still running after 4 s".to_string(),
    }
}

fn check_e2e(name: &str) -> bool {
    let obs = run_e2e(name);
    if obs == "ok" {
        return false;
    }
    let hex: Vec<String> = scenario(name).unwrap().iter().map(|d| d.iter().map(|b| format!("{:02x}", b)).collect::<String>()).collect();
    report(
        "Receiver::push_data",
        format!("{{\"kind\":\"e2e\",\"scenario\":\"{}\",\"datagrams_hex\":{:?}}}", name, hex),
        obs,
        "every push_data returns Ok or Err in bounded time".to_string(),
    );
    true
}

#[test]
fn search() {
    std::panic::set_hook(Box::new(|_| {}));
    if let Ok(inp) = std::env::var("VERIF_REPLAY_INPUT") {
        let bad = if json_str(&inp, "kind").as_deref() == Some("e2e") {
            check_e2e(&json_str(&inp, "scenario").unwrap())
        } else {
            check_ring(json_u64(&inp, "size").unwrap() as usize, json_u64(&inp, "seed").unwrap(), json_u64(&inp, "nops").unwrap() as usize)
        };
        println!("WSTATS {{\"evaluations\":1,\"mode\":\"replay\"}}");
        assert!(!bad, "replayed input still fails");
        return;
    }
    let thorough = std::env::var("VERIF_TIER").map(|t| t == "thorough").unwrap_or(false);
    let seed0 = std::env::var("VERIF_SEED").ok().and_then(|s| s.parse::<u64>().ok()).unwrap_or(0);
    let mut evals: u64 = 0;
    let mut found = 0;
    let (max_size, seeds, nops) = if thorough { (40usize, 400u64, 400usize) } else { (12, 60, 120) };
    for size in 0..=max_size {
        let mut found_here = 0;
        for s in 0..seeds {
            evals += 1;
            if found_here < 1 && check_ring(size, seed0.wrapping_add(s), nops) {
                found_here += 1;
                found += 1;
            }
        }
    }
    for name in ["empty_first_block", "stream_end_then_padding"] {
        evals += 1;
        if check_e2e(name) {
            found += 1;
        }
    }
    println!("WSTATS {{\"evaluations\":{},\"mode\":\"search\"}}", evals);
    assert!(found == 0, "witness found");
}
