// appended to src/common/alc.rs (scratch copy only)
#[cfg(any(kani, test))]
#[allow(dead_code, unused_imports, unused_macros)]
mod verif_kani {
    use super::*;
    #[cfg(kani)]
    use crate::tools::error::verif_kani_stubs::*;
    use crate::{vk_assume, vk_cover};

    const DGRAM: usize = 40;

    // @HARNESS id=C04.alc.parse_alc_pkt_total tier=quick kind=Kb props=C04 bound="every datagram of 0..=40 bytes, all six codepoints, extension walk unwound 11 times" timeout=1800
    /// parse_alc_pkt (LCT header, codec dispatch, EXT_FTI of the codec, EXT_CENC, EXT_FDT) returns Ok or Err
    /// on every byte string; an Ok packet satisfies the offsets every later reader indexes with.
    #[cfg(kani)]
    #[kani::proof]
    #[kani::unwind(12)]
    #[kani::stub(alloc::fmt::format, stub_format)]
    #[kani::stub(crate::tools::error::FluteError::new, stub_flute_error_new)]
    fn parse_alc_pkt_total() {
        h_parse_alc_pkt_total(kani::any(), kani::any());
    }
    pub fn h_parse_alc_pkt_total(buf: [u8; DGRAM], n: usize) {
        vk_assume!(n <= DGRAM);
        let data = &buf[..n];
        if let Ok(pkt) = parse_alc_pkt(data) {
            assert!(pkt.lct.header_ext_offset as usize <= pkt.lct.len);
            assert!(pkt.lct.len == pkt.data_alc_header_offset);
            assert!(pkt.data_alc_header_offset <= pkt.data_payload_offset);
            assert!(pkt.data_payload_offset <= pkt.data.len());
            assert!(pkt.data.len() == n);
            if let Some(oti) = pkt.oti.as_ref() {
                vk_cover!(oti.fec_encoding_id == oti::FECEncodingID::ReedSolomonGF28);
                vk_cover!(oti.fec_encoding_id == oti::FECEncodingID::RaptorQ);
            }
            // the readers that run next on an accepted packet
            let _ = get_sender_current_time(&pkt);
            let _ = get_fec_inline_payload_id(&pkt);
            if let Some(oti) = pkt.oti.as_ref() {
                let _ = parse_payload_id(&pkt, oti);
            }
        }
    }

    // @HARNESS id=C06.alc.ext_fdt tier=quick kind=K props=C06,C10 timeout=600
    /// EXT_FDT (RFC 6726 section 3.4.1): HET=192 | V (4 bit) | FDT Instance ID (20 bit)
    #[cfg(kani)]
    #[kani::proof]
    #[kani::unwind(6)]
    #[kani::stub(alloc::fmt::format, stub_format)]
    #[kani::stub(crate::tools::error::FluteError::new, stub_flute_error_new)]
    fn ext_fdt_layout() {
        h_ext_fdt_layout(kani::any(), kani::any(), kani::any());
    }
    pub fn h_ext_fdt_layout(version: u8, fdt_id: u32, any4: [u8; 4]) {
        vk_assume!(version < 16);
        vk_assume!(fdt_id < (1 << 20)); // Fdt::publish masks with 0xFFFFF
        let mut data: Vec<u8> = vec![0x10, 0, 2, 0];
        push_fdt(&mut data, version, fdt_id);
        assert!(data.len() == 8);
        assert!(data[2] == 3); // HDR_LEN grew by one word
        assert!(data[4] == 192);
        assert!(data[5] == (version << 4) | ((fdt_id >> 16) as u8));
        assert!(data[6] == (fdt_id >> 8) as u8);
        assert!(data[7] == fdt_id as u8);
        let back = parse_ext_fdt(&data[4..8]).unwrap().unwrap();
        assert!(back.version == version as u32 && back.fdt_instance_id == fdt_id);
        // the other direction: any 4 bytes an RFC sender may emit
        let r = parse_ext_fdt(&any4).unwrap().unwrap();
        assert!(r.version == (any4[1] >> 4) as u32);
        assert!(r.fdt_instance_id == (((any4[1] & 0xF) as u32) << 16) | ((any4[2] as u32) << 8) | any4[3] as u32);
    }

    // @HARNESS id=C06.alc.ext_cenc tier=quick kind=K props=C06 timeout=600
    /// EXT_CENC (RFC 6726 section 3.4.3): HET=193 | CENC | reserved (16 bit, zero)
    #[cfg(kani)]
    #[kani::proof]
    #[kani::unwind(6)]
    #[kani::stub(alloc::fmt::format, stub_format)]
    #[kani::stub(crate::tools::error::FluteError::new, stub_flute_error_new)]
    fn ext_cenc_layout() {
        h_ext_cenc_layout(kani::any(), kani::any());
    }
    pub fn h_ext_cenc_layout(cenc: u8, any4: [u8; 4]) {
        vk_assume!(cenc < 4);
        let mut data: Vec<u8> = vec![0x10, 0, 2, 0];
        push_cenc(&mut data, cenc);
        assert!(data.len() == 8 && data[2] == 3);
        assert!(data[4] == 193 && data[5] == cenc && data[6] == 0 && data[7] == 0);
        let back = parse_cenc(&data[4..8]).unwrap();
        assert!(back as u8 == cenc);
        match parse_cenc(&any4) {
            Ok(c) => assert!(c as u8 == any4[1] && any4[1] < 4),
            Err(_) => assert!(any4[1] >= 4),
        }
    }

    // @HARNESS id=C06.alc.close_session_pkt tier=quick kind=K props=C06,C08 timeout=900
    /// the explicit close-session packet: A=1, B=0, TOI 0, and nothing else ever sets A (new_alc_pkt passes `false`)
    #[cfg(kani)]
    #[kani::proof]
    #[kani::unwind(18)]
    #[kani::stub(alloc::fmt::format, stub_format)]
    #[kani::stub(crate::tools::error::FluteError::new, stub_flute_error_new)]
    fn close_session_pkt() {
        h_close_session_pkt(kani::any());
    }
    pub fn h_close_session_pkt(tsi: u64) {
        vk_assume!(tsi < (1u64 << 48));
        let data = new_alc_pkt_close_session(&0u128, tsi);
        assert!(data[1] & 0x02 == 0x02); // A
        assert!(data[1] & 0x01 == 0x00); // B
        let pkt = parse_alc_pkt(&data).unwrap();
        assert!(pkt.lct.close_session && !pkt.lct.close_object);
        assert!(pkt.lct.toi == 0 && pkt.lct.tsi == tsi);
    }
}
