// @READY (registered in vf/props.py)
// appended to src/common/alc.rs (scratch copy only)
#[cfg(any(kani, test))]
#[allow(dead_code, unused_imports, unused_macros)]
mod verif_kani {
    use super::*;
    #[cfg(kani)]
    use crate::tools::error::verif_kani_stubs::*;
    use crate::{vk_assume, vk_cover};

    const DGRAM: usize = 40;

    /// parse_alc_pkt (LCT header, codec dispatch, EXT_FTI of the codec, EXT_CENC, EXT_FDT) and the readers that
    /// run next on an accepted packet (EXT_TIME, payload id) return Ok or Err on every byte string; an Ok
    /// packet satisfies the offsets every later reader indexes with.  Split by codepoint to run in parallel.
    // @HARNESS id=C04.alc.parse_alc_pkt_total.cp0 tier=thorough kind=Kb props=C04 bound="every datagram of 0..=40 bytes with codepoint 0 (No-Code); extension walk unwound 11 times" timeout=2400
    #[cfg(kani)]
    #[kani::proof]
    #[kani::unwind(12)]
    #[kani::stub(alloc::fmt::format, stub_format)]
    #[kani::stub(crate::tools::error::FluteError::new, stub_flute_error_new)]
    fn parse_alc_pkt_total_cp0() {
        h_parse_alc_pkt_total_cp0(kani::any(), kani::any());
    }
    pub fn h_parse_alc_pkt_total_cp0(buf: [u8; DGRAM], n: usize) {
        vk_assume!(buf[3] == 0);
        h_parse_alc_pkt_total(buf, n);
    }

    // @HARNESS id=C04.alc.parse_alc_pkt_total.cp1 tier=thorough kind=Kb props=C04 bound="every datagram of 0..=40 bytes with codepoint 1 (Raptor); extension walk unwound 11 times" timeout=2400
    #[cfg(kani)]
    #[kani::proof]
    #[kani::unwind(12)]
    #[kani::stub(alloc::fmt::format, stub_format)]
    #[kani::stub(crate::tools::error::FluteError::new, stub_flute_error_new)]
    fn parse_alc_pkt_total_cp1() {
        h_parse_alc_pkt_total_cp1(kani::any(), kani::any());
    }
    pub fn h_parse_alc_pkt_total_cp1(buf: [u8; DGRAM], n: usize) {
        vk_assume!(buf[3] == 1);
        h_parse_alc_pkt_total(buf, n);
    }

    // @HARNESS id=C04.alc.parse_alc_pkt_total.cp2 tier=thorough kind=Kb props=C04 bound="every datagram of 0..=40 bytes with codepoint 2 (RS GF(2^m)); extension walk unwound 11 times" timeout=2400
    #[cfg(kani)]
    #[kani::proof]
    #[kani::unwind(12)]
    #[kani::stub(alloc::fmt::format, stub_format)]
    #[kani::stub(crate::tools::error::FluteError::new, stub_flute_error_new)]
    fn parse_alc_pkt_total_cp2() {
        h_parse_alc_pkt_total_cp2(kani::any(), kani::any());
    }
    pub fn h_parse_alc_pkt_total_cp2(buf: [u8; DGRAM], n: usize) {
        vk_assume!(buf[3] == 2);
        h_parse_alc_pkt_total(buf, n);
    }

    // @HARNESS id=C04.alc.parse_alc_pkt_total.cp5 tier=thorough kind=Kb props=C04 bound="every datagram of 0..=40 bytes with codepoint 5 (RS GF(2^8)); extension walk unwound 11 times" timeout=2400
    #[cfg(kani)]
    #[kani::proof]
    #[kani::unwind(12)]
    #[kani::stub(alloc::fmt::format, stub_format)]
    #[kani::stub(crate::tools::error::FluteError::new, stub_flute_error_new)]
    fn parse_alc_pkt_total_cp5() {
        h_parse_alc_pkt_total_cp5(kani::any(), kani::any());
    }
    pub fn h_parse_alc_pkt_total_cp5(buf: [u8; DGRAM], n: usize) {
        vk_assume!(buf[3] == 5);
        h_parse_alc_pkt_total(buf, n);
    }

    // @HARNESS id=C04.alc.parse_alc_pkt_total.cp6 tier=thorough kind=Kb props=C04 bound="every datagram of 0..=40 bytes with codepoint 6 (RaptorQ); extension walk unwound 11 times" timeout=2400
    #[cfg(kani)]
    #[kani::proof]
    #[kani::unwind(12)]
    #[kani::stub(alloc::fmt::format, stub_format)]
    #[kani::stub(crate::tools::error::FluteError::new, stub_flute_error_new)]
    fn parse_alc_pkt_total_cp6() {
        h_parse_alc_pkt_total_cp6(kani::any(), kani::any());
    }
    pub fn h_parse_alc_pkt_total_cp6(buf: [u8; DGRAM], n: usize) {
        vk_assume!(buf[3] == 6);
        h_parse_alc_pkt_total(buf, n);
    }

    // @HARNESS id=C04.alc.parse_alc_pkt_total.cp129 tier=thorough kind=Kb props=C04 bound="every datagram of 0..=40 bytes with codepoint 129 (RS under-specified); extension walk unwound 11 times" timeout=2400
    #[cfg(kani)]
    #[kani::proof]
    #[kani::unwind(12)]
    #[kani::stub(alloc::fmt::format, stub_format)]
    #[kani::stub(crate::tools::error::FluteError::new, stub_flute_error_new)]
    fn parse_alc_pkt_total_cp129() {
        h_parse_alc_pkt_total_cp129(kani::any(), kani::any());
    }
    pub fn h_parse_alc_pkt_total_cp129(buf: [u8; DGRAM], n: usize) {
        vk_assume!(buf[3] == 129);
        h_parse_alc_pkt_total(buf, n);
    }

    // @HARNESS id=C04.alc.parse_alc_pkt_total.cpother tier=thorough kind=Kb props=C04 bound="every datagram of 0..=40 bytes with every other codepoint; extension walk unwound 11 times" timeout=2400
    #[cfg(kani)]
    #[kani::proof]
    #[kani::unwind(12)]
    #[kani::stub(alloc::fmt::format, stub_format)]
    #[kani::stub(crate::tools::error::FluteError::new, stub_flute_error_new)]
    fn parse_alc_pkt_total_cpother() {
        h_parse_alc_pkt_total_cpother(kani::any(), kani::any());
    }
    pub fn h_parse_alc_pkt_total_cpother(buf: [u8; DGRAM], n: usize) {
        vk_assume!(buf[3] != 0 && buf[3] != 1 && buf[3] != 2 && buf[3] != 5 && buf[3] != 6 && buf[3] != 129);
        // (own body: no codec exists for these codepoints, so the reachability guard is the refusal of a full-size header,
        // not the accepted packet the shared body covers)
        vk_assume!(n <= DGRAM);
        let r = parse_alc_pkt(&buf[..n]);
        vk_cover!(n >= 8 && r.is_err());
        if let Ok(pkt) = r {
            assert!(pkt.lct.header_ext_offset as usize <= pkt.lct.len);
            assert!(pkt.lct.len == pkt.data_alc_header_offset);
            assert!(pkt.data_alc_header_offset <= pkt.data_payload_offset);
            assert!(pkt.data_payload_offset <= pkt.data.len());
            assert!(pkt.data.len() == n);
            let _ = get_sender_current_time(&pkt);
            let _ = get_fec_inline_payload_id(&pkt);
        }
    }

    const SMALL: usize = 28;

    // @HARNESS id=C04.alc.parse_alc_pkt_total.small tier=thorough kind=Kb props=C04 bound="every datagram of 0..=28 bytes whose LCT header has the 8-byte shape (C=0,S=0,O=0,H=0: the other shapes are C04.lct.parse_total, longer extension areas are get_ext in Verus); all codepoints" timeout=2400
    #[cfg(kani)]
    #[kani::proof]
    #[kani::unwind(8)]
    #[kani::stub(alloc::fmt::format, stub_format)]
    #[kani::stub(crate::tools::error::FluteError::new, stub_flute_error_new)]
    fn parse_alc_pkt_total_small() {
        h_parse_alc_pkt_total_small(kani::any(), kani::any());
    }
    pub fn h_parse_alc_pkt_total_small(buf: [u8; SMALL], n: usize) {
        vk_assume!(n <= SMALL);
        vk_assume!(buf[0] & 0x0C == 0 && buf[1] & 0xF0 == 0);
        let data = &buf[..n];
        if let Ok(pkt) = parse_alc_pkt(data) {
            assert!(pkt.lct.header_ext_offset as usize <= pkt.lct.len);
            assert!(pkt.lct.len == pkt.data_alc_header_offset);
            assert!(pkt.data_alc_header_offset <= pkt.data_payload_offset);
            assert!(pkt.data_payload_offset <= pkt.data.len());
            vk_cover!(pkt.oti.is_some());
            let _ = get_sender_current_time(&pkt);
            let _ = get_fec_inline_payload_id(&pkt);
            if let Some(oti) = pkt.oti.as_ref() {
                let _ = parse_payload_id(&pkt, oti);
            }
        }
    }

    const TINY: usize = 16;

    // @HARNESS id=C04.alc.parse_alc_pkt_total.tiny tier=quick kind=Kb props=C04 bound="every datagram of 0..=16 bytes (8-byte header shape): codepoint dispatch, size check and offsets of parse_alc_pkt itself; the extension parsers are covered by their own harnesses" timeout=1500
    #[cfg(kani)]
    #[kani::proof]
    #[kani::unwind(6)]
    #[kani::stub(alloc::fmt::format, stub_format)]
    #[kani::stub(crate::tools::error::FluteError::new, stub_flute_error_new)]
    fn parse_alc_pkt_total_tiny() {
        h_parse_alc_pkt_total_tiny(kani::any(), kani::any());
    }
    pub fn h_parse_alc_pkt_total_tiny(buf: [u8; TINY], n: usize) {
        vk_assume!(n <= TINY);
        vk_assume!(buf[0] & 0x0C == 0 && buf[1] & 0xF0 == 0);
        let data = &buf[..n];
        if let Ok(pkt) = parse_alc_pkt(data) {
            assert!(pkt.lct.header_ext_offset as usize <= pkt.lct.len);
            assert!(pkt.lct.len == pkt.data_alc_header_offset);
            assert!(pkt.data_alc_header_offset <= pkt.data_payload_offset);
            assert!(pkt.data_payload_offset <= pkt.data.len());
            vk_cover!(pkt.data_payload_offset == 16);
            let _ = get_sender_current_time(&pkt);
            let _ = get_fec_inline_payload_id(&pkt);
        }
    }

    // @HARNESS id=C04.alc.ext_parsers_total tier=quick kind=K props=C04 bound="every extension slice get_ext can return up to 16 bytes (length >= 4, multiple of 4: C04.get_ext.slice_shape)" timeout=900
    /// EXT_TIME / EXT_FDT / EXT_CENC parsers return Ok or Err on every extension slice
    #[cfg(kani)]
    #[kani::proof]
    #[kani::unwind(6)]
    #[kani::stub(alloc::fmt::format, stub_format)]
    #[kani::stub(crate::tools::error::FluteError::new, stub_flute_error_new)]
    fn ext_parsers_total() {
        h_ext_parsers_total(kani::any(), kani::any());
    }
    pub fn h_ext_parsers_total(buf: [u8; TINY], n: usize) {
        vk_assume!(n >= 4 && n <= TINY && n % 4 == 0);
        let ext = &buf[..n];
        let _ = parse_sct(ext);
        let _ = parse_ext_fdt(ext);
        let _ = parse_cenc(ext);
        vk_cover!(n == 12);
    }

    pub fn h_parse_alc_pkt_total(buf: [u8; DGRAM], n: usize) {
        vk_assume!(n <= DGRAM);
        let data = &buf[..n];
        if let Ok(pkt) = parse_alc_pkt(data) {
            assert!(pkt.lct.header_ext_offset as usize <= pkt.lct.len);
            assert!(pkt.lct.len == pkt.data_alc_header_offset);
            assert!(pkt.data_alc_header_offset <= pkt.data_payload_offset);
            assert!(pkt.data_payload_offset <= pkt.data.len());
            assert!(pkt.data.len() == n);
            vk_cover!(pkt.data_payload_offset > 8);
            // the readers that run next on an accepted packet
            let _ = get_sender_current_time(&pkt);
            let _ = get_fec_inline_payload_id(&pkt);
            if let Some(oti) = pkt.oti.as_ref() {
                let _ = parse_payload_id(&pkt, oti);
            }
        }
    }

    // @HARNESS id=C06.alc.ext_fdt tier=quick kind=K props=C06,C10 timeout=600
    /// EXT_FDT (RFC 6726 section 3.4.1): HET=192 | V (4 bit) | FDT Instance ID (20 bit)
    #[cfg(kani)]
    #[kani::proof]
    #[kani::unwind(6)]
    #[kani::stub(alloc::fmt::format, stub_format)]
    #[kani::stub(crate::tools::error::FluteError::new, stub_flute_error_new)]
    fn ext_fdt_layout() {
        h_ext_fdt_layout(kani::any(), kani::any(), kani::any());
    }
    pub fn h_ext_fdt_layout(version: u8, fdt_id: u32, any4: [u8; 4]) {
        vk_assume!(version < 16);
        vk_assume!(fdt_id < (1 << 20)); // Fdt::publish masks with 0xFFFFF
        let mut data: Vec<u8> = vec![0x10, 0, 2, 0];
        push_fdt(&mut data, version, fdt_id);
        assert!(data.len() == 8);
        assert!(data[2] == 3); // HDR_LEN grew by one word
        assert!(data[4] == 192);
        assert!(data[5] == (version << 4) | ((fdt_id >> 16) as u8));
        assert!(data[6] == (fdt_id >> 8) as u8);
        assert!(data[7] == fdt_id as u8);
        let back = parse_ext_fdt(&data[4..8]).unwrap().unwrap();
        assert!(back.version == version as u32 && back.fdt_instance_id == fdt_id);
        // the other direction: any 4 bytes an RFC sender may emit
        let r = parse_ext_fdt(&any4).unwrap().unwrap();
        assert!(r.version == (any4[1] >> 4) as u32);
        assert!(r.fdt_instance_id == (((any4[1] & 0xF) as u32) << 16) | ((any4[2] as u32) << 8) | any4[3] as u32);
    }

    // @HARNESS id=C06.alc.ext_cenc tier=quick kind=K props=C06 timeout=600
    /// EXT_CENC (RFC 6726 section 3.4.3): HET=193 | CENC | reserved (16 bit, zero)
    #[cfg(kani)]
    #[kani::proof]
    #[kani::unwind(6)]
    #[kani::stub(alloc::fmt::format, stub_format)]
    #[kani::stub(crate::tools::error::FluteError::new, stub_flute_error_new)]
    fn ext_cenc_layout() {
        h_ext_cenc_layout(kani::any(), kani::any());
    }
    pub fn h_ext_cenc_layout(cenc: u8, any4: [u8; 4]) {
        vk_assume!(cenc < 4);
        let mut data: Vec<u8> = vec![0x10, 0, 2, 0];
        push_cenc(&mut data, cenc);
        assert!(data.len() == 8 && data[2] == 3);
        assert!(data[4] == 193 && data[5] == cenc && data[6] == 0 && data[7] == 0);
        let back = parse_cenc(&data[4..8]).unwrap();
        assert!(back as u8 == cenc);
        match parse_cenc(&any4) {
            Ok(c) => assert!(c as u8 == any4[1] && any4[1] < 4),
            Err(_) => assert!(any4[1] >= 4),
        }
    }

    /// stand-ins for tools::ntp_to_system_time / system_time_to_ntp in the two EXT_TIME harnesses: injective on the whole domain, so the harness
    /// decides WHICH 64-bit NTP value parse_sct hands to the conversion (and push_sct takes from it); the conversions themselves are proved in
    /// unit `ntp` (Verus), CBMC does not finish on their 64-bit division
    #[cfg(kani)]
    pub fn stub_ntp_to_system_time(ntp: u64) -> Result<std::time::SystemTime> {
        Ok(std::time::UNIX_EPOCH + std::time::Duration::new(ntp >> 29, (ntp & 0x1FFF_FFFF) as u32))
    }
    #[cfg(kani)]
    pub fn stub_system_time_to_ntp(time: std::time::SystemTime) -> Result<u64> {
        let d = time.duration_since(std::time::UNIX_EPOCH).unwrap();
        Ok((d.as_secs() << 32) | d.subsec_nanos() as u64)
    }

    // @HARNESS id=C06.alc.ext_time tier=quick kind=K props=C06,C19 timeout=900
    /// EXT_TIME (RFC 5651 section 5.2.2): HET=2 | HEL | Use bits SCT-Hi SCT-Low ERT SLC | the time values present, in that order.
    /// parse_sct against a decoder written from the RFC text, for EVERY extension slice of 4..=20 bytes: the length must be
    /// 4 * (1 + number of flags set); the sender current time is present iff SCT-High is, with SCT-Low as its fraction when
    /// present and 0 otherwise (the SCT-High-only form is legal and must not be dropped: C19 relies on it).
    #[cfg(kani)]
    #[kani::proof]
    #[kani::unwind(6)]
    #[kani::stub(alloc::fmt::format, stub_format)]
    #[kani::stub(crate::tools::error::FluteError::new, stub_flute_error_new)]
    #[kani::stub(crate::tools::ntp_to_system_time, stub_ntp_to_system_time)]
    fn ext_time_vs_rfc() {
        h_ext_time_vs_rfc(kani::any(), kani::any());
    }
    pub fn h_ext_time_vs_rfc(buf: [u8; 20], n: usize) {
        vk_assume!(n >= 4 && n <= 20 && n % 4 == 0);
        let ext = &buf[..n];
        let hi = (buf[2] >> 7) & 1;
        let lo = (buf[2] >> 6) & 1;
        let ert = (buf[2] >> 5) & 1;
        let slc = (buf[2] >> 4) & 1;
        let rfc_len = 4 * (1 + hi as usize + lo as usize + ert as usize + slc as usize);
        let r = parse_sct(ext);
        if n != rfc_len {
            assert!(r.is_err());
            return;
        }
        if hi == 0 {
            assert!(matches!(r, Ok(None)));
            return;
        }
        let secs = u32::from_be_bytes([buf[4], buf[5], buf[6], buf[7]]) as u64;
        let frac = if lo == 1 { u32::from_be_bytes([buf[8], buf[9], buf[10], buf[11]]) as u64 } else { 0 };
        let expected = tools::ntp_to_system_time((secs << 32) | frac);
        match (r, expected) {
            (Ok(Some(t)), Ok(e)) => assert!(t == e),
            (Err(_), Err(_)) => {}
            _ => assert!(false),
        }
        vk_cover!(lo == 0 && n == 8);
    }

    // @HARNESS id=C06.alc.ext_time_push tier=quick kind=K props=C06,C19 timeout=900
    /// push_sct: HET=2, HEL=3, Use = SCT-High | SCT-Low, then the 64-bit NTP timestamp of the sender's clock; parses back to it
    #[cfg(kani)]
    #[kani::proof]
    #[kani::unwind(10)]
    #[kani::stub(alloc::fmt::format, stub_format)]
    #[kani::stub(crate::tools::error::FluteError::new, stub_flute_error_new)]
    #[kani::stub(crate::tools::ntp_to_system_time, stub_ntp_to_system_time)]
    #[kani::stub(crate::tools::system_time_to_ntp, stub_system_time_to_ntp)]
    fn ext_time_push() {
        h_ext_time_push(kani::any(), kani::any());
    }
    pub fn h_ext_time_push(secs: u32, nanos: u32) {
        vk_assume!(nanos < 1_000_000_000);
        vk_assume!(secs < 2_085_978_496); // NTP era 0 ends 2036-02-07 (precondition of system_time_to_ntp, unit ntp)
        let time = std::time::UNIX_EPOCH + std::time::Duration::new(secs as u64, nanos);
        let mut data: Vec<u8> = vec![0x10, 0, 2, 0];
        push_sct(&mut data, time);
        let ntp = tools::system_time_to_ntp(time).unwrap();
        assert!(data.len() == 16 && data[2] == 5);
        assert!(data[4] == 2 && data[5] == 3 && data[6] == 0xC0 && data[7] == 0);
        let b = ntp.to_be_bytes();
        assert!(data[8] == b[0] && data[9] == b[1] && data[10] == b[2] && data[11] == b[3]);
        assert!(data[12] == b[4] && data[13] == b[5] && data[14] == b[6] && data[15] == b[7]);
        let back = parse_sct(&data[4..16]).unwrap();
        assert!(back == Some(tools::ntp_to_system_time(ntp).unwrap()));
    }

    // @HARNESS id=C06.alc.close_session_pkt tier=quick kind=K props=C06,C08 timeout=900
    /// the explicit close-session packet: A=1, B=0, TOI 0, and nothing else ever sets A (new_alc_pkt passes `false`)
    #[cfg(kani)]
    #[kani::proof]
    #[kani::unwind(18)]
    #[kani::stub(alloc::fmt::format, stub_format)]
    #[kani::stub(crate::tools::error::FluteError::new, stub_flute_error_new)]
    fn close_session_pkt() {
        h_close_session_pkt(kani::any());
    }
    pub fn h_close_session_pkt(tsi: u64) {
        vk_assume!(tsi < (1u64 << 48));
        let data = new_alc_pkt_close_session(&0u128, tsi);
        assert!(data[0] >> 4 == 1);      // V
        assert!(data[1] & 0x02 == 0x02); // A = close session
        assert!(data[1] & 0x01 == 0x00); // B
        assert!(data[2] as usize * 4 + 4 == data.len()); // header + the 4-byte FEC payload id, no payload
    }
}
