// @READY (registered in vf/props.py)
// appended to src/common/alccodec/alcnocode.rs (scratch copy only) -- RFC 5445 (FEC Encoding ID 0, Compact No-Code)
#[cfg(any(kani, test))]
#[allow(dead_code, unused_imports, unused_macros)]
mod verif_kani {
    use super::*;
    use crate::common::alc::AlcPkt;
    use crate::common::alccodec::AlcCodec;
    use crate::common::oti::*;
    use crate::common::pkt::Pkt;
    use crate::tools::error::verif_kani_stubs::*;
    use crate::{vk_assume, vk_cover};

    fn mk_pkt(sbn: u32, esi: u32, sbl: u32) -> Pkt {
        Pkt { payload: Vec::new(), transfer_length: 0, esi, sbn, toi: 1, fdt_id: None, cenc: lct::Cenc::Null,
              inband_cenc: false, close_object: false, source_block_length: sbl, sender_current_time: false }
    }

    fn mk_alc<'a>(data: &'a [u8], hdr: lct::LCTHeader, pid_len: usize) -> AlcPkt<'a> {
        let off = hdr.len;
        AlcPkt { lct: hdr, oti: None, transfer_length: None, cenc: None, server_time: None, data,
                 data_alc_header_offset: off, data_payload_offset: off + pid_len, fdt_info: None }
    }

    // @HARNESS id=C06.nocode.fti tier=quick kind=K props=C06,C01 bound="L < 2^48, all E (16 bit), all B (32 bit)" timeout=1200
    /// EXT_FTI layout per RFC 5445 (FEC Encoding ID 0, Compact No-Code) and add_fti -> get_fti identity
    #[cfg(kani)]
    #[kani::proof]
    #[kani::unwind(10)]
    #[kani::stub(alloc::fmt::format, stub_format)]
    #[kani::stub(crate::tools::error::FluteError::new, stub_flute_error_new)]
    fn fti_layout() {
        h_fti_layout(kani::any(), kani::any(), kani::any());
    }
    pub fn h_fti_layout(l: u64, e: u16, b: u32) {
        vk_assume!(l < (1u64 << 48));
        let oti = Oti { fec_encoding_id: FECEncodingID::NoCode, fec_instance_id: 0, maximum_source_block_length: b, encoding_symbol_length: e, max_number_of_parity_symbols: 0, scheme_specific: None, inband_fti: true };
        let mut data = base_header(0);
        AlcNoCode {}.add_fti(&mut data, &oti, l);
        // ---- layout, read with an independent big-endian reader
        assert!(data.len() == 8 + 16);
        assert!(data[2] as usize * 4 == data.len());
        assert!(be(&data, 8, 1) == 64);               // HET = EXT_FTI
        assert!(be(&data, 9, 1) == 4);          // HEL in words
        assert!(be(&data, 10, 6) == l as u128);       // Transfer Length, 48 bit
        assert!(be(&data, 16, 2) == 0);               // reserved
        assert!(be(&data, 18, 2) == e as u128);       // Encoding Symbol Length
        assert!(be(&data, 20, 4) == b as u128);       // Maximum Source Block Length
        // ---- and back through flute's reader
        let hdr = lct::parse_lct_header(&data).unwrap();
        let (back, bl) = AlcNoCode {}.get_fti(&data, &hdr).unwrap().unwrap();
        assert!(bl == l);
        assert!(back.fec_encoding_id as u8 == 0);
        assert!(back.encoding_symbol_length == e);
        assert!(back.maximum_source_block_length == b && back.max_number_of_parity_symbols == 0);
    }

    // @HARNESS id=C06.nocode.payload_id tier=quick kind=K props=C06,C08 bound="SBN < 2^16, ESI < 2^16" timeout=900
    /// FEC payload ID layout per RFC 5445 (FEC Encoding ID 0, Compact No-Code) and add -> get identity
    #[cfg(kani)]
    #[kani::proof]
    #[kani::unwind(10)]
    #[kani::stub(alloc::fmt::format, stub_format)]
    #[kani::stub(crate::tools::error::FluteError::new, stub_flute_error_new)]
    fn payload_id_layout() {
        h_payload_id_layout(kani::any(), kani::any());
    }
    pub fn h_payload_id_layout(sbn: u32, esi: u32) {
        vk_assume!(sbn < (1 << 16) && esi < (1 << 16));
        let sbl = 0u32;
        let oti = Oti::new_no_code(1, 1);
        let mut data = base_header(0);
        AlcNoCode {}.add_fec_payload_id(&mut data, &oti, &mk_pkt(sbn, esi, sbl));
        assert!(data.len() == 8 + 4);
        assert!(AlcNoCode {}.fec_payload_id_block_length() == 4);
        assert!(be(&data, 8, 2) == sbn as u128);
        assert!(be(&data, 10, 2) == esi as u128);
        let hdr = lct::parse_lct_header(&data).unwrap();
        let alc = mk_alc(&data, hdr, 4);
        let back = AlcNoCode {}.get_fec_payload_id(&alc, &oti).unwrap();
        assert!(back.sbn == sbn && back.esi == esi);
        assert!(back.source_block_length.is_none());
    }

    const AREA: usize = 32;

    // @HARNESS id=C04.nocode.get_fti_total tier=quick kind=Kb props=C04 bound="LCT header of the 8-byte shape followed by every extension area of 0..=24 bytes" timeout=1500
    /// get_fti returns Ok or Err (never panics, never overflows) whatever the extension area holds
    #[cfg(kani)]
    #[kani::proof]
    #[kani::unwind(8)]
    #[kani::stub(alloc::fmt::format, stub_format)]
    #[kani::stub(crate::tools::error::FluteError::new, stub_flute_error_new)]
    fn get_fti_total() {
        h_get_fti_total(kani::any(), kani::any());
    }
    pub fn h_get_fti_total(buf: [u8; AREA], n: usize) {
        vk_assume!(n <= AREA);
        vk_assume!(buf[0] & 0x0C == 0 && buf[1] & 0xF0 == 0);
        let data = &buf[..n];
        if let Ok(hdr) = lct::parse_lct_header(data) {
            let r = AlcNoCode {}.get_fti(data, &hdr);
            if let Ok(Some((oti, l))) = r {
                assert!(oti.fec_encoding_id as u8 == 0);
                assert!(l < (1u64 << 48));
                vk_cover!(l > 0);
            }
        }
    }

    // @HARNESS id=C04.nocode.payload_id_total tier=quick kind=K props=C04 timeout=900
    /// the payload-id readers return Ok or Err for every packet whose offsets satisfy what parse_alc_pkt
    /// guarantees, and for every OTI (which may come from the network or from the FDT)
    #[cfg(kani)]
    #[kani::proof]
    #[kani::unwind(10)]
    #[kani::stub(alloc::fmt::format, stub_format)]
    #[kani::stub(crate::tools::error::FluteError::new, stub_flute_error_new)]
    fn payload_id_total() {
        h_payload_id_total(kani::any(), kani::any(), kani::any(), kani::any());
    }
    pub fn h_payload_id_total(buf: [u8; 16], off: usize, m: u8, g: u8) {
        let pid_len = AlcNoCode {}.fec_payload_id_block_length();
        vk_assume!(off <= 16 && off + pid_len <= 16);
        let hdr = lct::LCTHeader { len: off, cci: 0, tsi: 0, toi: 1, cp: 0, close_object: false, close_session: false, header_ext_offset: 8, length: off };
        let alc = mk_alc(&buf, hdr, pid_len);
        let oti = Oti { fec_encoding_id: FECEncodingID::ReedSolomonGF2M, fec_instance_id: 0, maximum_source_block_length: 1, encoding_symbol_length: 1,
                        max_number_of_parity_symbols: 0, scheme_specific: Some(SchemeSpecific::ReedSolomon(ReedSolomonGF2MSchemeSpecific { m, g })), inband_fti: true };
        let _ = AlcNoCode {}.get_fec_payload_id(&alc, &oti);
        let _ = AlcNoCode {}.get_fec_inline_payload_id(&alc);
    }
}
