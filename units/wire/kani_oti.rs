// appended to src/common/oti.rs (scratch copy only) -- Oti::max_transfer_length against what flute's own EXT_FTI writers can carry
// @READY
#[cfg(any(kani, test))]
#[allow(dead_code, unused_imports, unused_macros)]
mod verif_kani {
    use super::*;
    use crate::tools::error::verif_kani_stubs::*;
    use crate::{vk_assume, vk_cover};

    /// Largest transfer length the EXT_FTI written by flute's `add_fti` of the scheme can carry (independent of oti.rs: read off
    /// the writers, and proved as round-trip bounds by the harnesses C06.<scheme>.fti):
    ///   No-Code            alcnocode.rs:25               `transfer_length << 16`              48 bits
    ///   RS GF(2^8)         alcrs28.rs:22                 `transfer_length & 0xFFFFFFFFFFFF`   48 bits
    ///   RS under-specified alcrs28underspecified.rs:26   `transfer_length << 16`              48 bits
    ///   RaptorQ            alcraptorq.rs:36              `transfer_length << 24`              40 bits
    ///   Raptor             alcraptor.rs:36               `transfer_length << 24`              40 bits
    fn wire_capacity(id: FECEncodingID) -> u64 {
        match id {
            FECEncodingID::NoCode => (1u64 << 48) - 1,
            FECEncodingID::ReedSolomonGF28 => (1u64 << 48) - 1,
            FECEncodingID::ReedSolomonGF28UnderSpecified => (1u64 << 48) - 1,
            FECEncodingID::ReedSolomonGF2M => (1u64 << 48) - 1,
            FECEncodingID::RaptorQ => (1u64 << 40) - 1,
            FECEncodingID::Raptor => (1u64 << 40) - 1,
        }
    }

    /// the constant `max_transfer_length` caps with (oti.rs:505-512), transcribed
    fn capacity_const_in_code(id: FECEncodingID) -> u128 {
        match id {
            FECEncodingID::RaptorQ => 0xFFF_FFFF_FFFFu128, // ELEVEN f = 2^44 - 1 (the comment in the code says "40 bits max"; never binding: 255 * 65535^2 < 2^40)
            FECEncodingID::Raptor => 0xFF_FFFF_FFFFu128,   // 2^40 - 1 (2^48 - 1 before the fix of the finding C01.oti.max_transfer_length_within_wire_capacity.raptor)
            _ => 0xFFFF_FFFF_FFFFu128,
        }
    }

    /// the largest SBN count of the scheme's FEC payload ID (independent transcription of max_source_blocks_number)
    fn max_sbn(id: FECEncodingID) -> u128 {
        match id {
            FECEncodingID::NoCode => 65535,
            FECEncodingID::ReedSolomonGF28 => 255,
            FECEncodingID::ReedSolomonGF28UnderSpecified => 4294967295,
            FECEncodingID::RaptorQ => 255,
            FECEncodingID::Raptor => 65535,
            FECEncodingID::ReedSolomonGF2M => 0, // todo!() in the code
        }
    }

    /// scheme selector of the harnesses: every FECEncodingID except ReedSolomonGF2M (max_source_blocks_number() is `todo!()`)
    fn scheme(sel: u8) -> Option<FECEncodingID> {
        match sel {
            0 => Some(FECEncodingID::NoCode),
            1 => Some(FECEncodingID::ReedSolomonGF28),
            2 => Some(FECEncodingID::ReedSolomonGF28UnderSpecified),
            3 => Some(FECEncodingID::RaptorQ),
            4 => Some(FECEncodingID::Raptor),
            _ => None,
        }
    }

    fn mk_oti(id: FECEncodingID, e: u16, b: u32) -> Oti {
        let scheme_specific = match id {
            FECEncodingID::RaptorQ => Some(SchemeSpecific::RaptorQ(RaptorQSchemeSpecific { source_blocks_length: 0, sub_blocks_length: 1, symbol_alignment: 1 })),
            FECEncodingID::Raptor => Some(SchemeSpecific::Raptor(RaptorSchemeSpecific { source_blocks_length: 0, sub_blocks_length: 1, symbol_alignment: 1 })),
            _ => None,
        };
        Oti { fec_encoding_id: id, fec_instance_id: 0, maximum_source_block_length: b, encoding_symbol_length: e,
              max_number_of_parity_symbols: 0, scheme_specific, inband_fti: true }
    }

    // @HARNESS id=C01.oti.max_transfer_length_within_wire_capacity tier=quick kind=K props=C01,C07 bound="No-Code, RS GF(2^8), RS under-specified, RaptorQ (Raptor: own harness; RS GF(2^m): todo!()); all E (16 bit), B <= 65535 (every Oti constructor takes u8/u16 for B)" timeout=1200
    /// Oti::max_transfer_length neither overflows nor panics and never exceeds what the EXT_FTI written by flute for that scheme can
    /// carry: an object FileDesc::new lets through (transfer_length <= max_transfer_length) is announced with its true length.
    #[cfg(kani)]
    #[kani::proof]
    #[kani::unwind(4)]
    #[kani::stub(alloc::fmt::format, stub_format)]
    #[kani::stub(crate::tools::error::FluteError::new, stub_flute_error_new)]
    fn max_transfer_length_within_wire_capacity() {
        h_max_transfer_length_within_wire_capacity(kani::any(), kani::any(), kani::any());
    }
    pub fn h_max_transfer_length_within_wire_capacity(sel: u8, e: u16, b: u32) {
        vk_assume!(sel <= 3);
        vk_assume!(b <= 65535);
        let id = scheme(sel).unwrap();
        let oti = mk_oti(id, e, b);
        let r = oti.max_transfer_length();
        assert!(r as u64 <= wire_capacity(id));
        vk_cover!(sel == 2 && r as u64 == wire_capacity(id));   // RS under-specified reaches the 48-bit cap
        vk_cover!(sel == 3 && r as u64 > (1u64 << 39));          // RaptorQ comes close to (never reaches: 255 * 65535^2 < 2^40) its 40-bit cap
    }

    // @HARNESS id=C01.oti.max_transfer_length_within_wire_capacity.raptor tier=quick kind=K props=C01,C07 bound="Raptor; all E (16 bit), B <= 65535" timeout=1200
    /// same claim for Raptor (FEC Encoding ID 1): flute writes Raptor's F into 40 bits (alcraptor.rs:36 `transfer_length << 24`,
    /// get_fti `>> 24`).  Kept as its own harness: it FAILED (E = B = 32768) while max_transfer_length capped Raptor at 2^48 - 1.
    #[cfg(kani)]
    #[kani::proof]
    #[kani::unwind(4)]
    #[kani::stub(alloc::fmt::format, stub_format)]
    #[kani::stub(crate::tools::error::FluteError::new, stub_flute_error_new)]
    fn max_transfer_length_within_wire_capacity_raptor() {
        h_max_transfer_length_within_wire_capacity_raptor(kani::any(), kani::any());
    }
    pub fn h_max_transfer_length_within_wire_capacity_raptor(e: u16, b: u32) {
        vk_assume!(b <= 65535);
        let id = FECEncodingID::Raptor;
        let oti = mk_oti(id, e, b);
        let r = oti.max_transfer_length();
        assert!(r as u64 <= wire_capacity(id));
        vk_cover!(r as u64 == wire_capacity(id));   // the 40-bit cap is reached (E = B = 32768 ...)
    }

    // @HARNESS id=C01.oti.max_transfer_length_is_min_of_capacity_and_blocks tier=quick kind=K props=C01,C07 bound="every scheme except RS GF(2^m); all E (16 bit), B <= 65535" timeout=1200
    /// r == min(capacity constant of the code, E * B * largest number of source blocks of the scheme), computed in 128 bits
    #[cfg(kani)]
    #[kani::proof]
    #[kani::unwind(4)]
    #[kani::stub(alloc::fmt::format, stub_format)]
    #[kani::stub(crate::tools::error::FluteError::new, stub_flute_error_new)]
    fn max_transfer_length_is_min_of_capacity_and_blocks() {
        h_max_transfer_length_is_min_of_capacity_and_blocks(kani::any(), kani::any(), kani::any());
    }
    pub fn h_max_transfer_length_is_min_of_capacity_and_blocks(sel: u8, e: u16, b: u32) {
        vk_assume!(sel <= 4);
        vk_assume!(b <= 65535);
        let id = scheme(sel).unwrap();
        let oti = mk_oti(id, e, b);
        let r = oti.max_transfer_length() as u128;
        let blocks = e as u128 * b as u128 * max_sbn(id);
        let cap = capacity_const_in_code(id);
        let expect = if blocks < cap { blocks } else { cap };
        assert!(r == expect);
        assert!(oti.max_source_blocks_number() as u128 == max_sbn(id));
        vk_cover!(r == cap);
        vk_cover!(r == blocks && blocks > 0);
    }
}
