// appended to src/tools/error.rs (scratch copy only)
#[cfg(kani)]
pub(crate) mod verif_kani_stubs {
    use super::FluteError;
    /// stub for alloc::fmt::format: the error *text* is not part of any property
    pub fn stub_format(_args: core::fmt::Arguments<'_>) -> String {
        String::new()
    }
    /// stub for FluteError::new: fixed error value, no logging, no boxing of the message
    pub fn stub_flute_error_new<E>(_msg: E) -> FluteError
    where
        E: Into<Box<dyn std::error::Error + Send + Sync>> + std::fmt::Debug,
    {
        FluteError(std::io::Error::from(std::io::ErrorKind::Other))
    }
}

/// harness bodies are shared between Kani (symbolic) and the native replay test (concrete)
#[cfg(kani)]
#[macro_export]
#[doc(hidden)]
/// verification helper (scratch copy only)
macro_rules! vk_assume { ($c:expr) => { kani::assume($c) }; }
#[cfg(not(kani))]
#[macro_export]
#[doc(hidden)]
/// verification helper (scratch copy only)
macro_rules! vk_assume { ($c:expr) => { if !($c) { return; } }; }
#[cfg(kani)]
#[macro_export]
#[doc(hidden)]
/// verification helper (scratch copy only)
macro_rules! vk_cover { ($($t:tt)*) => { kani::cover!($($t)*) }; }
#[cfg(not(kani))]
#[macro_export]
#[doc(hidden)]
/// verification helper (scratch copy only)
macro_rules! vk_cover { ($($t:tt)*) => {}; }
