// @READY (registered in vf/props.py)
// appended to src/tools/error.rs (scratch copy only)
#[cfg(any(kani, test))]
#[allow(dead_code)]
pub(crate) mod verif_kani_stubs {
    use super::FluteError;

    /// minimal LCT header in front of the extensions: V=1, C=0 (32-bit CCI), no TSI/TOI, HDR_LEN=2
    pub fn base_header(cp: u8) -> Vec<u8> {
        vec![0x10, 0x00, 2, cp, 0, 0, 0, 0]
    }

    /// big-endian field of n bytes at offset `from` (independent of flute's readers)
    pub fn be(d: &[u8], from: usize, n: usize) -> u128 {
        let mut v: u128 = 0;
        let mut i = 0;
        while i < n {
            v = (v << 8) | d[from + i] as u128;
            i += 1;
        }
        v
    }

    /// stub for alloc::fmt::format: the error *text* is not part of any property
    pub fn stub_format(_args: core::fmt::Arguments<'_>) -> String {
        String::new()
    }
    /// stub for FluteError::new: fixed error value, no logging, no boxing of the message
    pub fn stub_flute_error_new<E>(_msg: E) -> FluteError
    where
        E: Into<Box<dyn std::error::Error + Send + Sync>> + std::fmt::Debug,
    {
        FluteError(std::io::Error::from(std::io::ErrorKind::Other))
    }
}

/// harness bodies are shared between Kani (symbolic) and the native replay test (concrete)
#[cfg(kani)]
#[macro_export]
#[doc(hidden)]
/// verification helper (scratch copy only)
macro_rules! vk_assume { ($c:expr) => { kani::assume($c) }; }
#[cfg(not(kani))]
#[macro_export]
#[doc(hidden)]
/// verification helper (scratch copy only)
macro_rules! vk_assume { ($c:expr) => { if !($c) { return; } }; }
#[cfg(kani)]
#[macro_export]
#[doc(hidden)]
/// verification helper (scratch copy only)
macro_rules! vk_cover { ($($t:tt)*) => { kani::cover!($($t)*) }; }
#[cfg(not(kani))]
#[macro_export]
#[doc(hidden)]
/// verification helper (scratch copy only)
macro_rules! vk_cover { ($($t:tt)*) => {}; }
