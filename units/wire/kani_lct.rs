// @READY (registered in vf/props.py)
// appended to src/common/lct.rs (scratch copy only)
#[cfg(any(kani, test))]
#[allow(dead_code, unused_imports, unused_macros)]
mod verif_kani {
    use super::*;
    #[cfg(kani)]
    use crate::tools::error::verif_kani_stubs::*;
    use crate::{vk_assume, vk_cover};

    // ---------------------------------------------------------------------------------
    // Independent decoder written from the text of RFC 5651 section 5.1 (not from flute).
    //  0                   1                   2                   3
    //  0 1 2 3 4 5 6 7 8 9 0 1 2 3 4 5 6 7 8 9 0 1 2 3 4 5 6 7 8 9 0 1
    // |   V   | C |PSI|S| O |H|Res|A|B|   HDR_LEN     | Codepoint (CP)|
    // ---------------------------------------------------------------------------------
    pub struct RfcLct {
        pub v: u8,
        pub c: u8,
        pub psi: u8,
        pub s: u8,
        pub o: u8,
        pub h: u8,
        pub res: u8,
        pub a: bool,
        pub b: bool,
        pub hdr_len_bytes: usize,
        pub cp: u8,
        pub cci: u128,
        pub tsi: u64,
        pub toi: u128,
        pub ext_offset: usize,
    }

    fn be(d: &[u8], from: usize, n: usize) -> u128 {
        let mut v: u128 = 0;
        let mut i = 0;
        while i < n {
            v = (v << 8) | d[from + i] as u128;
            i += 1;
        }
        v
    }

    /// None <=> the bytes are not a well-formed LCT header (too short, HDR_LEN smaller than the
    /// fixed part or larger than the datagram).  The version is returned, not judged.
    pub fn rfc5651_decode(d: &[u8]) -> Option<RfcLct> {
        if d.len() < 4 {
            return None;
        }
        let w: u32 = ((d[0] as u32) << 24) | ((d[1] as u32) << 16) | ((d[2] as u32) << 8) | d[3] as u32;
        let v = (w >> 28) as u8;
        let c = ((w >> 26) & 3) as u8;
        let psi = ((w >> 24) & 3) as u8;
        let s = ((w >> 23) & 1) as u8;
        let o = ((w >> 21) & 3) as u8;
        let h = ((w >> 20) & 1) as u8;
        let res = ((w >> 18) & 3) as u8;
        let a = ((w >> 17) & 1) == 1;
        let b = ((w >> 16) & 1) == 1;
        let hdr_len_bytes = (((w >> 8) & 0xFF) as usize) * 4;
        let cp = (w & 0xFF) as u8;
        let cci_len = 4 * (c as usize + 1);
        let tsi_len = 4 * s as usize + 2 * h as usize;
        let toi_len = 4 * o as usize + 2 * h as usize;
        let fixed = 4 + cci_len + tsi_len + toi_len;
        if hdr_len_bytes < fixed || hdr_len_bytes > d.len() {
            return None;
        }
        let cci = be(d, 4, cci_len);
        let tsi = be(d, 4 + cci_len, tsi_len) as u64;
        let toi = be(d, 4 + cci_len + tsi_len, toi_len);
        Some(RfcLct { v, c, psi, s, o, h, res, a, b, hdr_len_bytes, cp, cci, tsi, toi, ext_offset: fixed })
    }

    fn same(h: &LCTHeader, r: &RfcLct) -> bool {
        h.len == r.hdr_len_bytes
            && h.length == r.hdr_len_bytes
            && h.cci == r.cci
            && h.tsi == r.tsi
            && h.toi == r.toi
            && h.cp == r.cp
            && h.close_object == r.b
            && h.close_session == r.a
            && h.header_ext_offset as usize == r.ext_offset
    }

    const MAXLEN: usize = 48;

    // @HARNESS id=C04.lct.parse_total tier=quick kind=K props=C04,C06 bound="every datagram of 0..=48 bytes (the fixed LCT part is at most 44 bytes)" timeout=900
    /// parse_lct_header returns Ok or Err on every byte string (no panic, no overflow), and an Ok
    /// header satisfies the offsets later code indexes with.
    #[cfg(kani)]
    #[kani::proof]
    #[kani::unwind(18)]
    #[kani::stub(alloc::fmt::format, stub_format)]
    #[kani::stub(crate::tools::error::FluteError::new, stub_flute_error_new)]
    fn parse_lct_total() {
        h_parse_lct_total(kani::any(), kani::any());
    }
    pub fn h_parse_lct_total(buf: [u8; MAXLEN], n: usize) {
        vk_assume!(n <= MAXLEN);
        let data = &buf[..n];
        let r = parse_lct_header(data);
        if let Ok(h) = r {
            assert!(h.header_ext_offset as usize <= h.len);
            assert!(h.len <= data.len());
            assert!(h.header_ext_offset >= 8);
            vk_cover!(h.len == 44);
        }
        vk_cover!(n == 3);
        vk_cover!(n == 0);
    }

    // @HARNESS id=C06.lct.parse_vs_rfc tier=quick kind=K props=C06 bound="every datagram of 4..=48 bytes" timeout=900
    /// flute's parser against the RFC decoder, both directions:
    /// RFC-well-formed with V==1  ==> Ok with identical field values;  Ok ==> RFC-well-formed with identical values.
    #[cfg(kani)]
    #[kani::proof]
    #[kani::unwind(18)]
    #[kani::stub(alloc::fmt::format, stub_format)]
    #[kani::stub(crate::tools::error::FluteError::new, stub_flute_error_new)]
    fn parse_lct_vs_rfc() {
        h_parse_lct_vs_rfc(kani::any(), kani::any());
    }
    pub fn h_parse_lct_vs_rfc(buf: [u8; MAXLEN], n: usize) {
        vk_assume!(n >= 4 && n <= MAXLEN);
        let data = &buf[..n];
        let rfc = rfc5651_decode(data);
        let got = parse_lct_header(data);
        match (&got, &rfc) {
            (Ok(h), Some(r)) => {
                assert!(same(h, r));
                assert!(r.v == 1 || r.v == 2); // flute additionally accepts the obsolete V=2? recorded, not required
                vk_cover!(r.c == 3 && r.s == 1 && r.o == 3 && r.h == 1);
            }
            (Ok(_), None) => assert!(false), // accepted something the RFC layout cannot describe
            (Err(_), Some(r)) => assert!(r.v != 1), // a well-formed V=1 header must be accepted
            (Err(_), None) => {}
        }
    }

    // ---------------------------------------------------------------------------------
    // push_lct_header against the same RFC decoder
    // ---------------------------------------------------------------------------------
    fn push_vs_rfc(cci: u128, tsi: u64, toi: u128, psi: u8, cp: u8, close_object: bool, close_session: bool) {
        let mut data: Vec<u8> = Vec::new();
        push_lct_header(&mut data, psi, &cci, tsi, &toi, cp, close_object, close_session);
        let r = rfc5651_decode(&data);
        assert!(r.is_some());
        let r = r.unwrap();
        assert!(r.v == 1);
        assert!(r.res == 0);
        assert!(r.psi == psi);
        assert!(r.hdr_len_bytes == data.len());
        assert!(r.ext_offset == data.len());
        assert!(r.cci == cci);
        assert!(r.tsi == tsi);
        assert!(r.toi == toi);
        assert!(r.cp == cp);
        assert!(r.a == close_session);
        assert!(r.b == close_object);
        // (flute's own parser reads the same values back by composition with C06.lct.parse_vs_rfc:
        //  parse(bytes) == rfc5651_decode(bytes) for every byte string)
    }

    // @HARNESS id=C06.lct.push_vs_rfc.cci0 tier=quick kind=K props=C06,C15,C01 bound="CCI == 0 (the only value flute's sender passes); full domain of TSI < 2^48, TOI < 2^112, flags, psi, cp" timeout=1500
    #[cfg(kani)]
    #[kani::proof]
    #[kani::unwind(18)]
    #[kani::stub(alloc::fmt::format, stub_format)]
    #[kani::stub(crate::tools::error::FluteError::new, stub_flute_error_new)]
    fn push_lct_vs_rfc_cci0() {
        h_push_lct_vs_rfc_cci0(kani::any(), kani::any(), kani::any(), kani::any(), kani::any(), kani::any());
    }
    pub fn h_push_lct_vs_rfc_cci0(tsi: u64, toi: u128, psi: u8, cp: u8, b: bool, a: bool) {
        vk_assume!(tsi < (1u64 << 48));
        vk_assume!(toi < (1u128 << 112));
        vk_assume!(psi < 4);
        push_vs_rfc(0, tsi, toi, psi, cp, b, a);
    }

    // @HARNESS id=C06.lct.push_vs_rfc.default_widths tier=thorough kind=K props=C06,C15 bound="full domain of flags/psi/cp; CCI < 2^32, TSI < 2^48, TOI < 2^48" timeout=1500
    #[cfg(kani)]
    #[kani::proof]
    #[kani::unwind(18)]
    #[kani::stub(alloc::fmt::format, stub_format)]
    #[kani::stub(crate::tools::error::FluteError::new, stub_flute_error_new)]
    fn push_lct_vs_rfc_default_widths() {
        h_push_lct_vs_rfc_default_widths(kani::any(), kani::any(), kani::any(), kani::any(), kani::any(), kani::any(), kani::any());
    }
    pub fn h_push_lct_vs_rfc_default_widths(cci: u128, tsi: u64, toi: u128, psi: u8, cp: u8, b: bool, a: bool) {
        vk_assume!(cci < (1u128 << 32));
        vk_assume!(tsi < (1u64 << 48));
        vk_assume!(toi < (1u128 << 48));
        vk_assume!(psi < 4);
        push_vs_rfc(cci, tsi, toi, psi, cp, b, a);
    }

    // @HARNESS id=C06.lct.push_vs_rfc.full tier=thorough kind=K props=C06,C15 bound="full domain: CCI 128 bit, TSI < 2^48, TOI < 2^112" timeout=3600
    #[cfg(kani)]
    #[kani::proof]
    #[kani::unwind(18)]
    #[kani::stub(alloc::fmt::format, stub_format)]
    #[kani::stub(crate::tools::error::FluteError::new, stub_flute_error_new)]
    fn push_lct_vs_rfc_full() {
        h_push_lct_vs_rfc_full(kani::any(), kani::any(), kani::any(), kani::any(), kani::any(), kani::any(), kani::any());
    }
    pub fn h_push_lct_vs_rfc_full(cci: u128, tsi: u64, toi: u128, psi: u8, cp: u8, b: bool, a: bool) {
        vk_assume!(tsi < (1u64 << 48));
        vk_assume!(toi < (1u128 << 112));
        vk_assume!(psi < 4);
        push_vs_rfc(cci, tsi, toi, psi, cp, b, a);
    }

    // @HARNESS id=C06.lct.nb_bytes tier=quick kind=K props=C06 timeout=600
    /// width selection: the smallest RFC-legal field width that holds the value
    #[cfg(kani)]
    #[kani::proof]
    fn nb_bytes_widths() {
        h_nb_bytes_widths(kani::any(), kani::any(), kani::any());
    }
    pub fn h_nb_bytes_widths(n: u64, c: u128, m: u32) {
        let r = nb_bytes_64(n, 2);
        assert!(r == 2 || r == 4 || r == 6 || r == 8);
        assert!(r == 8 || (n >> (8 * r)) == 0);
        assert!(r == 2 || (n >> (8 * (r - 2))) != 0);
        vk_assume!(m == 0 || m == 2);
        let r = nb_bytes_128(&c, m);
        assert!(r % 2 == 0 && r <= 16 && r >= m);
        assert!(r == 16 || (c >> (8 * r)) == 0);
        assert!(r <= 2 || (c >> (8 * (r - 2))) != 0);
        vk_cover!(r == 14);
    }
}
