// Native witness search for unit `partition` (appended to src/common/partition.rs in a scratch copy).
// Compares the real functions with a 128-bit reference of RFC 5052 section 9.1.
use super::*;

fn cdiv(a: u128, b: u128) -> u128 {
    if a % b == 0 { a / b } else { a / b + 1 }
}

/// (A_L, A_S, I, N)
fn reference(b: u128, l: u128, e: u128) -> (u128, u128, u128, u128) {
    if b == 0 || e == 0 {
        return (0, 0, 0, 0);
    }
    let t = cdiv(l, e);
    let n = cdiv(t, b);
    if n == 0 {
        return (0, 0, 0, 0);
    }
    let al = cdiv(t, n);
    let a_s = t / n;
    (al, a_s, t - a_s * n, n)
}

fn ref_block_bytes(j: u128, l: u128, e: u128, q: (u128, u128, u128, u128)) -> u128 {
    let (al, a_s, i, n) = q;
    let sym = |k: u128| if k < i { al } else { a_s };
    if j + 1 < n {
        sym(j) * e
    } else {
        let before: u128 = if j <= i { j * al } else { i * al + (j - i) * a_s };
        l - before * e
    }
}

fn report(func: &str, input: String, observed: String, expected: String) {
    println!(
        "WITNESS {{\"fn\":\"{}\",\"input\":{},\"observed\":\"{}\",\"expected\":\"{}\"}}",
        func, input, observed, expected
    );
}

/// returns true when the real code disagrees with the reference on this triple
fn check(b: u64, l: u64, e: u64, all_sbn: bool) -> bool {
    let mut bad = false;
    let exp = reference(b as u128, l as u128, e as u128);
    let got = std::panic::catch_unwind(|| block_partitioning(b, l, e));
    let input = format!("{{\"b\":{},\"l\":{},\"e\":{}}}", b, l, e);
    let got = match got {
        Ok(g) => g,
        Err(_) => {
            report("block_partitioning", input, "panic".to_string(), format!("{:?}", exp));
            return true;
        }
    };
    if (got.0 as u128, got.1 as u128, got.2 as u128, got.3 as u128) != exp {
        report("block_partitioning", input, format!("{:?}", got), format!("{:?}", exp));
        return true;
    }
    if exp.3 == 0 || l >= (1u64 << 48) || e > 65535 {
        return false;
    }
    let n = exp.3;
    let mut sbns: Vec<u128> = vec![0, n - 1];
    if all_sbn {
        sbns = (0..n).collect();
    } else {
        for c in [exp.2.wrapping_sub(1), exp.2, n.wrapping_sub(2), n / 2] {
            if c < n {
                sbns.push(c);
            }
        }
    }
    for j in sbns {
        if j > u32::MAX as u128 {
            continue;
        }
        let expb = ref_block_bytes(j, l as u128, e as u128, exp);
        let gotb = std::panic::catch_unwind(|| block_length(got.0, got.1, got.2, l, e, j as u32));
        let input = format!(
            "{{\"b\":{},\"l\":{},\"e\":{},\"sbn\":{}}}",
            b, l, e, j
        );
        match gotb {
            Ok(g) if g as u128 == expb => {}
            Ok(g) => {
                report("block_length", input, format!("{}", g), format!("{}", expb));
                bad = true;
                break;
            }
            Err(_) => {
                report("block_length", input, "panic".to_string(), format!("{}", expb));
                bad = true;
                break;
            }
        }
    }
    bad
}

struct Rng(u64);
impl Rng {
    fn next(&mut self) -> u64 {
        self.0 ^= self.0 << 13;
        self.0 ^= self.0 >> 7;
        self.0 ^= self.0 << 17;
        self.0
    }
}

fn json_u64(s: &str, key: &str) -> Option<u64> {
    let k = format!("\"{}\":", key);
    let p = s.find(&k)? + k.len();
    let rest = s[p..].trim_start();
    let end = rest.find(|c: char| !c.is_ascii_digit()).unwrap_or(rest.len());
    rest[..end].parse().ok()
}

#[test]
fn search() {
    std::panic::set_hook(Box::new(|_| {}));
    if let Ok(inp) = std::env::var("VERIF_REPLAY_INPUT") {
        let b = json_u64(&inp, "b").unwrap();
        let l = json_u64(&inp, "l").unwrap();
        let e = json_u64(&inp, "e").unwrap();
        let bad = check(b, l, e, true);
        println!("WSTATS {{\"evaluations\":1,\"mode\":\"replay\"}}");
        assert!(!bad, "replayed input still fails");
        return;
    }
    let thorough = std::env::var("VERIF_TIER").map(|t| t == "thorough").unwrap_or(false);
    let mut evals: u64 = 0;
    let mut found = 0;
    // exhaustive small grid (the quantifier of C07): B <= 64, E <= 24, L <= 4000
    let (bm, em, lm) = if thorough { (64, 24, 4000) } else { (24, 12, 700) };
    'grid: for b in 0..=bm {
        for e in 0..=em {
            for l in 0..=lm {
                evals += 1;
                if check(b, l, e, l <= 400) {
                    found += 1;
                    if found >= 3 {
                        break 'grid;
                    }
                }
            }
        }
    }
    // boundaries
    let bs = [1u64, 2, 3, 255, 256, 65535, 65536, (1 << 32) - 1];
    let es = [1u64, 2, 3, 1400, 1424, 65534, 65535];
    let ls = [1u64, 2, 65535, 65536, (1 << 32) - 1, 1 << 32, (1 << 40) - 1, (1 << 47) + 12345, (1 << 48) - 2, (1 << 48) - 1];
    for &b in &bs {
        for &e in &es {
            for &l in &ls {
                evals += 1;
                if found < 6 && check(b, l, e, false) {
                    found += 1;
                }
            }
        }
    }
    // seeded random
    let seed = std::env::var("VERIF_SEED").ok().and_then(|s| s.parse::<u64>().ok()).unwrap_or(0);
    let mut r = Rng(0x9E3779B97F4A7C15 ^ (seed.wrapping_mul(0x2545F4914F6CDD1D) | 1));
    let n = if thorough { 400_000 } else { 40_000 };
    for _ in 0..n {
        let b = 1 + (r.next() >> (32 + (r.next() % 32))) % ((1 << 32) - 1);
        let e = 1 + r.next() % 65535;
        let l = (r.next() >> (16 + (r.next() % 47))) % (1 << 48);
        evals += 1;
        if found < 9 && check(b, l, e, false) {
            found += 1;
        }
    }
    println!("WSTATS {{\"evaluations\":{},\"mode\":\"search\"}}", evals);
    assert!(found == 0, "witness found");
}
