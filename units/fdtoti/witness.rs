// Native witness search for unit `fdtoti` (appended to src/common/fdtinstance.rs in a scratch copy).
// Parses FDT instances with the REAL FdtInstance::parse (quick-xml + serde) and calls the REAL get_oti / File::get_oti /
// get_oti_for_file; prints a WITNESS line when a call violates the contract of units/fdtoti/unit.vrs (C04: returns Some or None
// without panicking / without arithmetic overflow; debug profile = overflow checks on, the profile of the test suite).
use super::*;

fn wit(f: &str, input: String, observed: String, expected: &str) {
    println!(
        "WITNESS {{\"fn\":\"{}\",\"input\":{},\"observed\":\"{}\",\"expected\":\"{}\"}}",
        f, input, observed.replace('"', "'").replace('\\', ""), expected
    );
}

fn obs(what: &str, detail: String) {
    println!("OBSERVATION {{\"what\":\"{}\",\"detail\":\"{}\"}}", what, detail.replace('"', "'"));
}

fn panic_text(e: Box<dyn std::any::Any + Send>) -> String {
    e.downcast_ref::<String>().cloned().or_else(|| e.downcast_ref::<&str>().map(|s| s.to_string())).unwrap_or_else(|| "panic".to_string())
}

/// FDT instance with the FEC OTI attributes (id, B, E, max_n) on the instance (`on_instance`) and/or on its single File
fn fdt_xml(id: u64, b: u64, e: u64, max_n: Option<u64>, on_instance: bool, on_file: bool) -> String {
    let attrs = format!(
        "FEC-OTI-FEC-Encoding-ID=\"{}\" FEC-OTI-Maximum-Source-Block-Length=\"{}\" FEC-OTI-Encoding-Symbol-Length=\"{}\"{}",
        id, b, e,
        match max_n { Some(n) => format!(" FEC-OTI-Max-Number-of-Encoding-Symbols=\"{}\"", n), None => String::new() }
    );
    format!(
        "<?xml version=\"1.0\" encoding=\"UTF-8\"?>\n<FDT-Instance xmlns=\"urn:IETF:metadata:2005:FLUTE:FDT\" Expires=\"4000000000\" {}>\n  <File Content-Location=\"file:///a.bin\" TOI=\"1\" Content-Length=\"10\" Transfer-Length=\"10\" {}/>\n</FDT-Instance>\n",
        if on_instance { attrs.as_str() } else { "" },
        if on_file { attrs.as_str() } else { "" }
    )
}

fn input_json(case: &str, id: u64, b: u64, e: u64, max_n: Option<u64>) -> String {
    format!("{{\"case\":\"{}\",\"id\":{},\"b\":{},\"e\":{},\"max_n\":{}}}", case, id, b, e, max_n.map(|n| n.to_string()).unwrap_or("null".to_string()))
}

/// returns the number of violations (calls that panic)
fn check(id: u64, b: u64, e: u64, max_n: Option<u64>) -> u32 {
    let mut bad = 0;
    // --- attributes on the instance: FdtInstance::get_oti
    let xml = fdt_xml(id, b, e, max_n, true, false);
    match FdtInstance::parse(xml.as_bytes()) {
        Err(err) => obs("FdtInstance::parse refused the sample", format!("{:?}", err)),
        Ok(fdt) => {
            assert!(fdt.fec_oti_maximum_source_block_length == Some(b) && fdt.fec_oti_max_number_of_encoding_symbols == max_n);
            if let Err(p) = std::panic::catch_unwind(|| fdt.get_oti()) {
                wit("FdtInstance::get_oti", input_json("instance", id, b, e, max_n), format!("PANIC: {}", panic_text(p)), "Some(_) or None");
                bad += 1;
            }
            let file = &fdt.file.as_ref().unwrap()[0];
            if let Err(p) = std::panic::catch_unwind(|| fdt.get_oti_for_file(file)) {
                wit("FdtInstance::get_oti_for_file", input_json("instance", id, b, e, max_n), format!("PANIC: {}", panic_text(p)), "Some(_) or None");
                bad += 1;
            }
        }
    }
    // --- attributes on the File: File::get_oti, and get_oti_for_file as ObjectReceiver::attach_fdt calls it (objectreceiver.rs:340)
    let xml = fdt_xml(id, b, e, max_n, false, true);
    match FdtInstance::parse(xml.as_bytes()) {
        Err(err) => obs("FdtInstance::parse refused the sample", format!("{:?}", err)),
        Ok(fdt) => {
            let file = &fdt.file.as_ref().unwrap()[0];
            assert!(file.fec_oti_maximum_source_block_length == Some(b) && file.fec_oti_max_number_of_encoding_symbols == max_n);
            if let Err(p) = std::panic::catch_unwind(|| file.get_oti()) {
                wit("File::get_oti", input_json("file", id, b, e, max_n), format!("PANIC: {}", panic_text(p)), "Some(_) or None");
                bad += 1;
            }
            if let Err(p) = std::panic::catch_unwind(|| fdt.get_oti_for_file(file)) {
                wit("FdtInstance::get_oti_for_file", input_json("file", id, b, e, max_n), format!("PANIC: {}", panic_text(p)), "Some(_) or None");
                bad += 1;
            }
        }
    }
    bad
}

fn json_u64(s: &str, key: &str) -> Option<u64> {
    let k = format!("\"{}\":", key);
    let p = s.find(&k)? + k.len();
    let rest = s[p..].trim_start();
    let end = rest.find(|c: char| !c.is_ascii_digit()).unwrap_or(rest.len());
    rest[..end].parse().ok()
}

#[test]
fn search() {
    std::panic::set_hook(Box::new(|_| {}));
    if let Ok(inp) = std::env::var("VERIF_REPLAY_INPUT") {
        let bad = check(json_u64(&inp, "id").unwrap_or(0), json_u64(&inp, "b").unwrap(), json_u64(&inp, "e").unwrap(), json_u64(&inp, "max_n"));
        println!("WSTATS {{\"evaluations\":1,\"mode\":\"replay\"}}");
        assert!(bad == 0, "replayed input still fails");
        return;
    }
    let mut evals = 0u64;
    let mut found = 0u32;
    // the announced case first: max-number-of-encoding-symbols (10) below maximum-source-block-length (64)
    evals += 1;
    found += check(0, 64, 1400, Some(10));
    // small grid over the two attributes that are subtracted, every known codepoint and an unknown one
    for id in [0u64, 1, 2, 5, 6, 129, 7] {
        for b in [0u64, 1, 64, 255, 65535, 65536, u32::MAX as u64, u32::MAX as u64 + 1, u64::MAX] {
            for max_n in [None, Some(0u64), Some(1), Some(63), Some(64), Some(65), Some(u64::MAX)] {
                evals += 1;
                if found < 8 {
                    found += check(id, b, 1400, max_n);
                }
            }
        }
    }
    // what the `as u16` / `as u32` casts make of out-of-range values (no judgement: C10.fdtoti.*.as_u16 / as_u32 describe them)
    for (b, e, inst) in [(64u64, 65536u64, 0u64), (64, 65537, 0), (1u64 << 32, 1400, 0), ((1u64 << 32) + 64, 1400, 65536 + 7)] {
        let xml = fdt_xml(0, b, e, Some(b), true, false).replace("Expires=", &format!("FEC-OTI-FEC-Instance-ID=\"{}\" Expires=", inst));
        if let Ok(fdt) = FdtInstance::parse(xml.as_bytes()) {
            if let Ok(Some(o)) = std::panic::catch_unwind(|| fdt.get_oti()) {
                obs(
                    "truncating casts in get_oti",
                    format!("announced B={} E={} instance={} -> Oti B={} E={} instance={}", b, e, inst, o.maximum_source_block_length, o.encoding_symbol_length, o.fec_instance_id),
                );
            }
        }
    }
    println!("WSTATS {{\"evaluations\":{},\"mode\":\"search\"}}", evals);
    assert!(found == 0, "witness found");
}
