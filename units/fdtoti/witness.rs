// Native witness search for unit `fdtoti` (appended to src/common/fdtinstance.rs in a scratch copy).
// Parses FDT instances with the REAL FdtInstance::parse (quick-xml + serde) and calls the REAL get_oti / File::get_oti /
// get_oti_for_file; prints a WITNESS line when a call violates the contract of units/fdtoti/unit.vrs (C04: returns Some or None
// without panicking / without arithmetic overflow; debug profile = overflow checks on, the profile of the test suite).
use super::*;

fn wit(f: &str, input: String, observed: String, expected: &str) {
    println!(
        "WITNESS {{\"fn\":\"{}\",\"input\":{},\"observed\":\"{}\",\"expected\":\"{}\"}}",
        f, input, observed.replace('"', "'").replace('\\', ""), expected
    );
}

fn obs(what: &str, detail: String) {
    println!("OBSERVATION {{\"what\":\"{}\",\"detail\":\"{}\"}}", what, detail.replace('"', "'"));
}

fn panic_text(e: Box<dyn std::any::Any + Send>) -> String {
    e.downcast_ref::<String>().cloned().or_else(|| e.downcast_ref::<&str>().map(|s| s.to_string())).unwrap_or_else(|| "panic".to_string())
}

/// FDT instance with the FEC OTI attributes (id, B, E, max_n) on the instance (`on_instance`) and/or on its single File
fn fdt_xml(id: u64, b: u64, e: u64, max_n: Option<u64>, on_instance: bool, on_file: bool) -> String {
    let attrs = format!(
        "FEC-OTI-FEC-Encoding-ID=\"{}\" FEC-OTI-Maximum-Source-Block-Length=\"{}\" FEC-OTI-Encoding-Symbol-Length=\"{}\"{}",
        id, b, e,
        match max_n { Some(n) => format!(" FEC-OTI-Max-Number-of-Encoding-Symbols=\"{}\"", n), None => String::new() }
    );
    format!(
        "<?xml version=\"1.0\" encoding=\"UTF-8\"?>\n<FDT-Instance xmlns=\"urn:IETF:metadata:2005:FLUTE:FDT\" Expires=\"4000000000\" {}>\n  <File Content-Location=\"file:///a.bin\" TOI=\"1\" Content-Length=\"10\" Transfer-Length=\"10\" {}/>\n</FDT-Instance>\n",
        if on_instance { attrs.as_str() } else { "" },
        if on_file { attrs.as_str() } else { "" }
    )
}

fn input_json(case: &str, id: u64, b: u64, e: u64, max_n: Option<u64>) -> String {
    format!("{{\"case\":\"{}\",\"id\":{},\"b\":{},\"e\":{},\"max_n\":{}}}", case, id, b, e, max_n.map(|n| n.to_string()).unwrap_or("null".to_string()))
}

/// returns the number of violations (calls that panic)
fn check(id: u64, b: u64, e: u64, max_n: Option<u64>) -> u32 {
    let mut bad = 0;
    // --- attributes on the instance: FdtInstance::get_oti
    let xml = fdt_xml(id, b, e, max_n, true, false);
    match FdtInstance::parse(xml.as_bytes()) {
        Err(err) => obs("FdtInstance::parse refused the sample", format!("{:?}", err)),
        Ok(fdt) => {
            assert!(fdt.fec_oti_maximum_source_block_length == Some(b) && fdt.fec_oti_max_number_of_encoding_symbols == max_n);
            if let Err(p) = std::panic::catch_unwind(|| fdt.get_oti()) {
                wit("FdtInstance::get_oti", input_json("instance", id, b, e, max_n), format!("PANIC: {}", panic_text(p)), "Some(_) or None");
                bad += 1;
            }
            let file = &fdt.file.as_ref().unwrap()[0];
            if let Err(p) = std::panic::catch_unwind(|| fdt.get_oti_for_file(file)) {
                wit("FdtInstance::get_oti_for_file", input_json("instance", id, b, e, max_n), format!("PANIC: {}", panic_text(p)), "Some(_) or None");
                bad += 1;
            }
        }
    }
    // --- attributes on the File: File::get_oti, and get_oti_for_file as ObjectReceiver::attach_fdt calls it (objectreceiver.rs:340)
    let xml = fdt_xml(id, b, e, max_n, false, true);
    match FdtInstance::parse(xml.as_bytes()) {
        Err(err) => obs("FdtInstance::parse refused the sample", format!("{:?}", err)),
        Ok(fdt) => {
            let file = &fdt.file.as_ref().unwrap()[0];
            assert!(file.fec_oti_maximum_source_block_length == Some(b) && file.fec_oti_max_number_of_encoding_symbols == max_n);
            if let Err(p) = std::panic::catch_unwind(|| file.get_oti()) {
                wit("File::get_oti", input_json("file", id, b, e, max_n), format!("PANIC: {}", panic_text(p)), "Some(_) or None");
                bad += 1;
            }
            if let Err(p) = std::panic::catch_unwind(|| fdt.get_oti_for_file(file)) {
                wit("FdtInstance::get_oti_for_file", input_json("file", id, b, e, max_n), format!("PANIC: {}", panic_text(p)), "Some(_) or None");
                bad += 1;
            }
        }
    }
    bad
}

fn json_u64(s: &str, key: &str) -> Option<u64> {
    let k = format!("\"{}\":", key);
    let p = s.find(&k)? + k.len();
    let rest = s[p..].trim_start();
    let end = rest.find(|c: char| !c.is_ascii_digit()).unwrap_or(rest.len());
    rest[..end].parse().ok()
}

/// C10 / C03 "read by an independent XML parser and by flute's receiver": an FDT instance WRITTEN FROM THE RFC TEXT (RFC 6726 section 3.4.2 and
/// 7.1: attribute names exactly as in the schema, 3GPP / optional ones left out), not produced by flute, must be read by the real
/// FdtInstance::parse into exactly these values - the (de)serialisation names live in serde attributes, outside any contract.
fn check_rfc_names() -> u32 {
    let xml = "<?xml version=\"1.0\" encoding=\"UTF-8\"?>\n<FDT-Instance xmlns=\"urn:IETF:metadata:2005:FLUTE:FDT\" Expires=\"4000000000\" Complete=\"true\" \
Content-Type=\"text/x-instance\" Content-Encoding=\"gzip\" FEC-OTI-FEC-Encoding-ID=\"0\" FEC-OTI-FEC-Instance-ID=\"0\" FEC-OTI-Maximum-Source-Block-Length=\"64\" \
FEC-OTI-Encoding-Symbol-Length=\"1400\" FEC-OTI-Max-Number-of-Encoding-Symbols=\"64\">\n  <File Content-Location=\"file:///a.bin\" TOI=\"340282366920938463463374607431768211455\" \
Content-Length=\"123\" Transfer-Length=\"77\" Content-Type=\"application/x-test\" Content-Encoding=\"deflate\" Content-MD5=\"1B2M2Y8AsgTpgAmY7PhCfg==\" \
FEC-OTI-FEC-Encoding-ID=\"5\" FEC-OTI-FEC-Instance-ID=\"0\" FEC-OTI-Maximum-Source-Block-Length=\"32\" FEC-OTI-Encoding-Symbol-Length=\"100\" \
FEC-OTI-Max-Number-of-Encoding-Symbols=\"40\"/>\n</FDT-Instance>";
    let mut bad = 0;
    let mut fail = |what: &str, observed: String, expected: &str| {
        wit("parse", format!("{{\"case\":\"rfc_names\",\"attribute\":\"{}\"}}", what), observed, expected);
        bad += 1;
    };
    let fdt = match FdtInstance::parse(xml.as_bytes()) {
        Ok(f) => f,
        Err(e) => { fail("document", format!("parse error {:?}", e), "an RFC 6726 FDT instance is parsed"); return bad; }
    };
    if fdt.expires != "4000000000" { fail("Expires", format!("{:?}", fdt.expires), "attribute Expires of the instance is read as written"); }
    if fdt.complete != Some(true) { fail("Complete", format!("{:?}", fdt.complete), "attribute Complete of the instance is read as written"); }
    if fdt.content_type.as_deref() != Some("text/x-instance") { fail("Content-Type", format!("{:?}", fdt.content_type), "attribute Content-Type of the instance is read as written"); }
    if fdt.content_encoding.as_deref() != Some("gzip") { fail("Content-Encoding", format!("{:?}", fdt.content_encoding), "attribute Content-Encoding of the instance is read as written"); }
    if fdt.fec_oti_maximum_source_block_length != Some(64) || fdt.fec_oti_encoding_symbol_length != Some(1400) || fdt.fec_oti_fec_encoding_id != Some(0)
        || fdt.fec_oti_max_number_of_encoding_symbols != Some(64) {
        fail("FEC-OTI-*", format!("{:?} {:?} {:?} {:?}", fdt.fec_oti_fec_encoding_id, fdt.fec_oti_maximum_source_block_length, fdt.fec_oti_encoding_symbol_length, fdt.fec_oti_max_number_of_encoding_symbols),
            "the FEC-OTI attributes of the instance are read as written");
    }
    let files = fdt.file.clone().unwrap_or_default();
    if files.len() != 1 { fail("File", format!("{} File elements", files.len()), "one File element is read"); return bad; }
    let f = &files[0];
    if f.content_location != "file:///a.bin" { fail("Content-Location", format!("{:?}", f.content_location), "attribute Content-Location of the File is read as written"); }
    if f.toi != "340282366920938463463374607431768211455" { fail("TOI", format!("{:?}", f.toi), "attribute TOI of the File is read as written"); }
    if f.content_length != Some(123) { fail("Content-Length", format!("{:?}", f.content_length), "attribute Content-Length of the File is read as written"); }
    if f.transfer_length != Some(77) { fail("Transfer-Length", format!("{:?}", f.transfer_length), "attribute Transfer-Length of the File is read as written"); }
    if f.content_type.as_deref() != Some("application/x-test") { fail("Content-Type", format!("{:?}", f.content_type), "attribute Content-Type of the File is read as written"); }
    if f.content_encoding.as_deref() != Some("deflate") { fail("Content-Encoding", format!("{:?}", f.content_encoding), "attribute Content-Encoding of the File is read as written"); }
    if f.content_md5.as_deref() != Some("1B2M2Y8AsgTpgAmY7PhCfg==") { fail("Content-MD5", format!("{:?}", f.content_md5), "attribute Content-MD5 of the File is read as written"); }
    if f.fec_oti_fec_encoding_id != Some(5) || f.fec_oti_maximum_source_block_length != Some(32) || f.fec_oti_encoding_symbol_length != Some(100)
        || f.fec_oti_max_number_of_encoding_symbols != Some(40) {
        fail("File FEC-OTI-*", format!("{:?} {:?} {:?} {:?}", f.fec_oti_fec_encoding_id, f.fec_oti_maximum_source_block_length, f.fec_oti_encoding_symbol_length, f.fec_oti_max_number_of_encoding_symbols),
            "the FEC-OTI attributes of the File are read as written");
    }
    if f.get_transfer_length() != 77 { fail("get_transfer_length", format!("{}", f.get_transfer_length()), "the transfer length of the entry is its Transfer-Length attribute"); }
    bad
}

#[test]
fn search() {
    std::panic::set_hook(Box::new(|_| {}));
    if let Ok(inp) = std::env::var("VERIF_REPLAY_INPUT") {
        let bad = check(json_u64(&inp, "id").unwrap_or(0), json_u64(&inp, "b").unwrap(), json_u64(&inp, "e").unwrap(), json_u64(&inp, "max_n"));
        println!("WSTATS {{\"evaluations\":1,\"mode\":\"replay\"}}");
        assert!(bad == 0, "replayed input still fails");
        return;
    }
    let mut evals = 0u64;
    let mut found = 0u32;
    // the announced case first: max-number-of-encoding-symbols (10) below maximum-source-block-length (64)
    evals += 1;
    found += check(0, 64, 1400, Some(10));
    // small grid over the two attributes that are subtracted, every known codepoint and an unknown one
    for id in [0u64, 1, 2, 5, 6, 129, 7] {
        for b in [0u64, 1, 64, 255, 65535, 65536, u32::MAX as u64, u32::MAX as u64 + 1, u64::MAX] {
            for max_n in [None, Some(0u64), Some(1), Some(63), Some(64), Some(65), Some(u64::MAX)] {
                evals += 1;
                if found < 8 {
                    found += check(id, b, 1400, max_n);
                }
            }
        }
    }
    // what the `as u16` / `as u32` casts make of out-of-range values (no judgement: C10.fdtoti.*.as_u16 / as_u32 describe them)
    for (b, e, inst) in [(64u64, 65536u64, 0u64), (64, 65537, 0), (1u64 << 32, 1400, 0), ((1u64 << 32) + 64, 1400, 65536 + 7)] {
        let xml = fdt_xml(0, b, e, Some(b), true, false).replace("Expires=", &format!("FEC-OTI-FEC-Instance-ID=\"{}\" Expires=", inst));
        if let Ok(fdt) = FdtInstance::parse(xml.as_bytes()) {
            if let Ok(Some(o)) = std::panic::catch_unwind(|| fdt.get_oti()) {
                obs(
                    "truncating casts in get_oti",
                    format!("announced B={} E={} instance={} -> Oti B={} E={} instance={}", b, e, inst, o.maximum_source_block_length, o.encoding_symbol_length, o.fec_instance_id),
                );
            }
        }
    }
    evals += 1;
    found += check_rfc_names();
    println!("WSTATS {{\"evaluations\":{},\"mode\":\"search\"}}", evals);
    assert!(found == 0, "witness found");
}
