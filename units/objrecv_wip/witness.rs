// Native witness search for unit `objrecv` (appended to src/receiver/objectreceiver.rs in a scratch copy).
use super::*;
use crate::receiver::writer::{ObjectWriterBufferBuilder};
use crate::receiver::writer::ObjectMetadata;

fn report(func: &str, input: String, observed: String, expected: String) {
    let observed = observed.replace('"', "'");
    println!("WITNESS {{\"fn\":\"{}\",\"input\":{},\"observed\":\"{}\",\"expected\":\"{}\"}}", func, input, observed, expected);
}

fn mk_receiver(max_cache: usize) -> ObjectReceiver {
    let builder = Rc::new(ObjectWriterBufferBuilder::new(true));
    let endpoint = UDPEndpoint::new(None, "224.0.0.1".to_owned(), 1234);
    ObjectReceiver::new(&endpoint, 1, &5u128, None, builder, max_cache, SystemTime::now())
}

/// a data packet without EXT_FTI (the OTI is only in the FDT): TOI 5, No-Code, 4-byte payload id + payload
fn mk_pkt_bytes(payload_len: usize, esi: u16) -> Vec<u8> {
    let mut data = Vec::new();
    lct::push_lct_header(&mut data, 0, &0u128, 1, &5u128, 0, false, false);
    data.extend(0u16.to_be_bytes());
    data.extend(esi.to_be_bytes());
    data.extend(vec![0xAAu8; payload_len]);
    data
}

/// C17: the per-object packet cache never holds more than the limit plus one packet
fn check_cache(limit: usize, pkt_len: usize, n: usize) -> bool {
    let mut r = mk_receiver(limit);
    let mut held = 0usize;
    for k in 0..n {
        let bytes = mk_pkt_bytes(pkt_len, k as u16);
        let pkt = alc::parse_alc_pkt(&bytes).unwrap();
        let before = r.cache.len();
        let res = r.cache(&pkt);
        if res.is_ok() { held += bytes.len(); }
        if held > limit + bytes.len() || (res.is_ok() && r.cache.len() != before + 1) || r.cache_size != held {
            report("cache", format!("{{\"limit\":{},\"pkt_len\":{},\"n\":{}}}", limit, pkt_len, n),
                   format!("after {} packets: {} bytes cached, cache_size counter = {}, result {}", k + 1, held, r.cache_size, if res.is_ok() { "Ok" } else { "Err" }),
                   format!("at most limit + one packet = {} bytes cached and cache_size == cached bytes", limit + bytes.len()));
            r.state = State::Error; // nothing to report on drop
            return true;
        }
    }
    false
}

/// C04: a data packet carrying its own EXT_FTI is pushed into a fresh object receiver; nothing may panic
fn check_push(fec: u8, l: u64, e: u16, b: u32, sbn: u32, esi: u32, payload_len: usize) -> bool {
    let o = match fec {
        2 => oti::Oti { fec_encoding_id: oti::FECEncodingID::ReedSolomonGF2M, fec_instance_id: 0, maximum_source_block_length: b, encoding_symbol_length: e,
                        max_number_of_parity_symbols: 2, scheme_specific: Some(oti::SchemeSpecific::ReedSolomon(oti::ReedSolomonGF2MSchemeSpecific { m: 8, g: 1 })), inband_fti: true },
        _ => oti::Oti { fec_encoding_id: oti::FECEncodingID::NoCode, fec_instance_id: 0, maximum_source_block_length: b, encoding_symbol_length: e,
                        max_number_of_parity_symbols: 0, scheme_specific: None, inband_fti: true },
    };
    let p = crate::common::pkt::Pkt { payload: vec![0x55u8; payload_len], transfer_length: l, esi, sbn, toi: 5, fdt_id: None, cenc: lct::Cenc::Null,
        inband_cenc: true, close_object: false, source_block_length: b, sender_current_time: false };
    let bytes = alc::new_alc_pkt(&o, &0u128, 1, &p, crate::common::Profile::RFC6726, SystemTime::now());
    let r = std::panic::catch_unwind(|| {
        let pkt = alc::parse_alc_pkt(&bytes).unwrap();
        let mut rcv = mk_receiver(1 << 20);
        rcv.push(&pkt, SystemTime::now());
        rcv.state = State::Error;
    });
    if r.is_err() {
        let func = if fec == 2 { "init" } else { "push_to_block2" };
        report(func, format!("{{\"fec\":{},\"l\":{},\"e\":{},\"b\":{},\"sbn\":{},\"esi\":{},\"payload_len\":{}}}", fec, l, e, b, sbn, esi, payload_len),
               "panic while pushing the packet into ObjectReceiver::push".to_string(), "Ok or Err, no panic".to_string());
        return true;
    }
    false
}

// ---- C09: a monitoring object writer whose open() can be made to fail
#[derive(Debug)]
struct MonWriter { calls: Rc<std::cell::RefCell<Vec<&'static str>>>, fail_open: bool }
impl ObjectWriter for MonWriter {
    fn open(&self, _now: SystemTime) -> Result<()> {
        self.calls.borrow_mut().push("open");
        if self.fail_open { Err(FluteError::new("open refused")) } else { Ok(()) }
    }
    fn write(&self, _sbn: u32, _data: &[u8], _now: SystemTime) -> Result<()> { self.calls.borrow_mut().push("write"); Ok(()) }
    fn complete(&self, _now: SystemTime) { self.calls.borrow_mut().push("complete"); }
    fn error(&self, _now: SystemTime) { self.calls.borrow_mut().push("error"); }
    fn interrupted(&self, _now: SystemTime) { self.calls.borrow_mut().push("interrupted"); }
    fn enable_md5_check(&self) -> bool { false }
}
struct MonBuilder { calls: Rc<std::cell::RefCell<Vec<&'static str>>>, fail_open: bool }
impl ObjectWriterBuilder for MonBuilder {
    fn new_object_writer(&self, _e: &UDPEndpoint, _tsi: &u64, _toi: &u128, _meta: &ObjectMetadata, _now: SystemTime) -> ObjectWriterBuilderResult {
        ObjectWriterBuilderResult::StoreObject(Box::new(MonWriter { calls: self.calls.clone(), fail_open: self.fail_open }))
    }
    fn update_cache_control(&self, _e: &UDPEndpoint, _tsi: &u64, _toi: &u128, _meta: &ObjectMetadata, _now: SystemTime) {}
    fn fdt_received(&self, _e: &UDPEndpoint, _tsi: &u64, _x: &str, _ex: SystemTime, _m: &ObjectMetadata, _d: Duration, _now: SystemTime, _t: Option<SystemTime>) {}
}

fn proto_ok(calls: &[&str]) -> bool {
    // open first and once; writes only after open; at most one terminal call, nothing after it
    if calls.is_empty() { return true; }
    if calls[0] != "open" { return false; }
    let mut terminal = false;
    for c in &calls[1..] {
        if terminal { return false; }
        match *c { "open" => return false, "write" => {}, _ => terminal = true }
    }
    true
}

/// an object of `l` bytes whose packet `pkts` are pushed into an ObjectReceiver for TOI 0 (everything the writer needs is in-band)
fn check_proto(l: u64, fail_open: bool, npkt: usize) -> bool {
    let calls = Rc::new(std::cell::RefCell::new(Vec::new()));
    let builder = Rc::new(MonBuilder { calls: calls.clone(), fail_open });
    let endpoint = UDPEndpoint::new(None, "224.0.0.1".to_owned(), 1234);
    {
        let mut rcv = ObjectReceiver::new(&endpoint, 1, &lct::TOI_FDT, None, builder, 1 << 20, SystemTime::now());
        let o = oti::Oti::new_no_code(4, 8);
        for k in 0..npkt {
            let plen = std::cmp::min(4, (l as usize).saturating_sub(4 * k));
            let p = crate::common::pkt::Pkt { payload: vec![0x41u8; plen], transfer_length: l, esi: k as u32, sbn: 0, toi: 0, fdt_id: Some(1), cenc: lct::Cenc::Null,
                inband_cenc: true, close_object: false, source_block_length: 8, sender_current_time: false };
            let bytes = alc::new_alc_pkt(&o, &0u128, 1, &p, crate::common::Profile::RFC6726, SystemTime::now());
            let pkt = alc::parse_alc_pkt(&bytes).unwrap();
            rcv.push(&pkt, SystemTime::now());
        }
    }
    let c = calls.borrow();
    if std::env::var("VERIF_DEBUG").is_ok() { println!("DEBUG l={} fail_open={} npkt={} calls={:?}", l, fail_open, npkt, *c); }
    if !proto_ok(&c) {
        report("push", format!("{{\"proto\":1,\"l\":{},\"fail_open\":{},\"npkt\":{}}}", l, if fail_open { 1 } else { 0 }, npkt),
               format!("writer saw {:?}", *c), "open, writes, at most one terminal call, nothing after".to_string());
        return true;
    }
    false
}

fn num(inp: &str, k: &str) -> usize {
    inp.split(&format!("\"{}\":", k)).nth(1).unwrap().trim().split(|c: char| !c.is_ascii_digit()).next().unwrap().parse().unwrap()
}

#[test]
fn search() {
    if let Ok(inp) = std::env::var("VERIF_REPLAY_INPUT") {
        std::panic::set_hook(Box::new(|_| {}));
        let bad = if inp.contains("\"limit\"") { check_cache(num(&inp, "limit"), num(&inp, "pkt_len"), num(&inp, "n")) }
            else if inp.contains("\"proto\"") { check_proto(num(&inp, "l") as u64, num(&inp, "fail_open") == 1, num(&inp, "npkt")) }
            else if inp.contains("\"fec\"") { check_push(num(&inp, "fec") as u8, num(&inp, "l") as u64, num(&inp, "e") as u16, num(&inp, "b") as u32, num(&inp, "sbn") as u32, num(&inp, "esi") as u32, num(&inp, "payload_len")) }
            else { false };
        println!("WSTATS {{\"evaluations\":1,\"mode\":\"replay\"}}");
        assert!(!bad, "replayed input still fails");
        return;
    }
    let mut evals = 0u64;
    let mut found = 0;
    for limit in [0usize, 1, 64, 1000] {
        for pkt_len in [0usize, 1, 100] {
            evals += 1;
            if found < 2 && check_cache(limit, pkt_len, 40) { found += 1; }
        }
    }
    std::panic::set_hook(Box::new(|_| {}));
    let mut found2 = 0;
    for fec in [0u8, 2] {
        for (l, e, b) in [(10u64, 1u16, 5u32), (10, 3, 2), (1, 1, 1), (4000, 16, 64)] {
            let t = (l + e as u64 - 1) / e as u64;
            let n = ((t + b as u64 - 1) / b as u64) as u32;
            for sbn in [0u32, n.saturating_sub(1), n, n + 1, n + 7, 4000, 65535] {
                for esi in [0u32, 1, b, 255] {
                    evals += 1;
                    if found2 < 2 && check_push(fec, l, e, b, sbn, esi, e as usize) { found2 += 1; }
                }
            }
        }
    }
    found += found2;
    for l in [0u64, 1, 4, 9] {
        for fail_open in [false, true] {
            for npkt in [1usize, 2, 3, 4] {
                evals += 1;
                if check_proto(l, fail_open, npkt) { found += 1; }
            }
        }
    }
    println!("WSTATS {{\"evaluations\":{},\"mode\":\"search\"}}", evals);
    assert!(found == 0, "witness found");
}
