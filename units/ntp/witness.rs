// Native witness search for unit `ntp` (appended to src/tools/mod.rs in a scratch copy).
use super::*;
use std::time::{Duration, UNIX_EPOCH};

fn check(secs: u64, micros: u32) -> bool {
    let t = UNIX_EPOCH + Duration::new(secs, micros * 1000);
    let r = std::panic::catch_unwind(|| system_time_to_ntp(t).ok().and_then(|n| ntp_to_system_time(n).ok()));
    let obs = match r {
        Ok(Some(back)) => {
            if back == t { return false; }
            let d = back.duration_since(UNIX_EPOCH).unwrap();
            format!("decoded {}.{:06} s", d.as_secs(), d.subsec_micros())
        }
        Ok(None) => "Err".to_string(),
        Err(_) => "panic".to_string(),
    };
    println!("WITNESS {{\"fn\":\"ntp_to_system_time\",\"input\":{{\"secs\":{},\"micros\":{}}},\"observed\":\"{}\",\"expected\":\"decoded {}.{:06} s (the encoded instant)\"}}", secs, micros, obs, secs, micros);
    true
}

#[test]
fn search() {
    std::panic::set_hook(Box::new(|_| {}));
    if let Ok(inp) = std::env::var("VERIF_REPLAY_INPUT") {
        let num = |k: &str| -> u64 { inp.split(&format!("\"{}\":", k)).nth(1).unwrap().trim().split(|c: char| !c.is_ascii_digit()).next().unwrap().parse().unwrap() };
        let bad = check(num("secs"), num("micros") as u32);
        println!("WSTATS {{\"evaluations\":1,\"mode\":\"replay\"}}");
        assert!(!bad, "replayed input still fails");
        return;
    }
    let mut evals = 0u64;
    let mut found = 0;
    for secs in [0u64, 1, 1_700_000_000, 2_085_978_495] {
        for micros in 0..1_000_000u32 {
            evals += 1;
            if found < 3 && check(secs, micros) { found += 1; }
        }
    }
    println!("WSTATS {{\"evaluations\":{},\"mode\":\"search\"}}", evals);
    assert!(found == 0, "witness found");
}
