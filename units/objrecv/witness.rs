// Native witness search for unit `objrecv` (appended to src/receiver/objectreceiver.rs in a scratch copy).
use super::*;
use crate::receiver::writer::{ObjectWriterBufferBuilder};

fn report(func: &str, input: String, observed: String, expected: String) {
    println!("WITNESS {{\"fn\":\"{}\",\"input\":{},\"observed\":\"{}\",\"expected\":\"{}\"}}", func, input, observed, expected);
}

fn mk_receiver(max_cache: usize) -> ObjectReceiver {
    let builder = Rc::new(ObjectWriterBufferBuilder::new(true));
    let endpoint = UDPEndpoint::new(None, "224.0.0.1".to_owned(), 1234);
    ObjectReceiver::new(&endpoint, 1, &5u128, None, builder, max_cache, SystemTime::now())
}

/// a data packet without EXT_FTI (the OTI is only in the FDT): TOI 5, No-Code, 4-byte payload id + payload
fn mk_pkt_bytes(payload_len: usize, esi: u16) -> Vec<u8> {
    let mut data = Vec::new();
    lct::push_lct_header(&mut data, 0, &0u128, 1, &5u128, 0, false, false);
    data.extend(0u16.to_be_bytes());
    data.extend(esi.to_be_bytes());
    data.extend(vec![0xAAu8; payload_len]);
    data
}

/// C17: the per-object packet cache never holds more than the limit plus one packet
fn check_cache(limit: usize, pkt_len: usize, n: usize) -> bool {
    let mut r = mk_receiver(limit);
    let mut held = 0usize;
    for k in 0..n {
        let bytes = mk_pkt_bytes(pkt_len, k as u16);
        let pkt = alc::parse_alc_pkt(&bytes).unwrap();
        let before = r.cache.len();
        let res = r.cache(&pkt);
        if res.is_ok() { held += bytes.len(); }
        if held > limit + bytes.len() || (res.is_ok() && r.cache.len() != before + 1) || r.cache_size != held {
            report("cache", format!("{{\"limit\":{},\"pkt_len\":{},\"n\":{}}}", limit, pkt_len, n),
                   format!("after {} packets: {} bytes cached, cache_size counter = {}, result {}", k + 1, held, r.cache_size, if res.is_ok() { "Ok" } else { "Err" }),
                   format!("at most limit + one packet = {} bytes cached and cache_size == cached bytes", limit + bytes.len()));
            r.state = State::Error; // nothing to report on drop
            return true;
        }
    }
    false
}

fn num(inp: &str, k: &str) -> usize {
    inp.split(&format!("\"{}\":", k)).nth(1).unwrap().trim().split(|c: char| !c.is_ascii_digit()).next().unwrap().parse().unwrap()
}

#[test]
fn search() {
    if let Ok(inp) = std::env::var("VERIF_REPLAY_INPUT") {
        let bad = if inp.contains("\"limit\"") { check_cache(num(&inp, "limit"), num(&inp, "pkt_len"), num(&inp, "n")) } else { false };
        println!("WSTATS {{\"evaluations\":1,\"mode\":\"replay\"}}");
        assert!(!bad, "replayed input still fails");
        return;
    }
    let mut evals = 0u64;
    let mut found = 0;
    for limit in [0usize, 1, 64, 1000] {
        for pkt_len in [0usize, 1, 100] {
            evals += 1;
            if found < 2 && check_cache(limit, pkt_len, 40) { found += 1; }
        }
    }
    println!("WSTATS {{\"evaluations\":{},\"mode\":\"search\"}}", evals);
    assert!(found == 0, "witness found");
}
