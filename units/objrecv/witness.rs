// Native witness search for unit `objrecv` (appended to src/receiver/objectreceiver.rs in a scratch copy).
use super::*;
use crate::receiver::writer::{ObjectWriterBufferBuilder};
use crate::receiver::writer::ObjectMetadata;

fn report(func: &str, input: String, observed: String, expected: String) {
    let observed = observed.replace('"', "'");
    let expected = expected.replace('"', "'");
    println!("WITNESS {{\"fn\":\"{}\",\"input\":{},\"observed\":\"{}\",\"expected\":\"{}\"}}", func, input, observed, expected);
}

fn mk_receiver(max_cache: usize) -> ObjectReceiver {
    let builder = Rc::new(ObjectWriterBufferBuilder::new(true));
    let endpoint = UDPEndpoint::new(None, "224.0.0.1".to_owned(), 1234);
    ObjectReceiver::new(&endpoint, 1, &5u128, None, builder, max_cache, SystemTime::now())
}

/// a data packet without EXT_FTI (the OTI is only in the FDT): TOI 5, No-Code, 4-byte payload id + payload
fn mk_pkt_bytes(payload_len: usize, esi: u16) -> Vec<u8> {
    let mut data = Vec::new();
    lct::push_lct_header(&mut data, 0, &0u128, 1, &5u128, 0, false, false);
    data.extend(0u16.to_be_bytes());
    data.extend(esi.to_be_bytes());
    data.extend(vec![0xAAu8; payload_len]);
    data
}

/// C17: the per-object packet cache never holds more than the limit plus one packet
fn check_cache(limit: usize, pkt_len: usize, n: usize) -> bool {
    let mut r = mk_receiver(limit);
    let mut held = 0usize;
    for k in 0..n {
        let bytes = mk_pkt_bytes(pkt_len, k as u16);
        let pkt = alc::parse_alc_pkt(&bytes).unwrap();
        let before = r.cache.len();
        let res = r.cache(&pkt);
        if res.is_ok() { held += bytes.len(); }
        if held > limit + bytes.len() || (res.is_ok() && r.cache.len() != before + 1) || r.cache_size != held {
            report("cache", format!("{{\"limit\":{},\"pkt_len\":{},\"n\":{}}}", limit, pkt_len, n),
                   format!("after {} packets: {} bytes cached, cache_size counter = {}, result {}", k + 1, held, r.cache_size, if res.is_ok() { "Ok" } else { "Err" }),
                   format!("at most limit + one packet = {} bytes cached and cache_size == cached bytes", limit + bytes.len()));
            r.state = State::Error; // nothing to report on drop
            return true;
        }
    }
    false
}

/// C04: a data packet carrying its own EXT_FTI is pushed into a fresh object receiver; nothing may panic
fn check_push(fec: u8, l: u64, e: u16, b: u32, sbn: u32, esi: u32, payload_len: usize) -> bool {
    let o = match fec {
        2 => oti::Oti { fec_encoding_id: oti::FECEncodingID::ReedSolomonGF2M, fec_instance_id: 0, maximum_source_block_length: b, encoding_symbol_length: e,
                        max_number_of_parity_symbols: 2, scheme_specific: Some(oti::SchemeSpecific::ReedSolomon(oti::ReedSolomonGF2MSchemeSpecific { m: 8, g: 1 })), inband_fti: true },
        _ => oti::Oti { fec_encoding_id: oti::FECEncodingID::NoCode, fec_instance_id: 0, maximum_source_block_length: b, encoding_symbol_length: e,
                        max_number_of_parity_symbols: 0, scheme_specific: None, inband_fti: true },
    };
    let p = crate::common::pkt::Pkt { payload: vec![0x55u8; payload_len], transfer_length: l, esi, sbn, toi: 5, fdt_id: None, cenc: lct::Cenc::Null,
        inband_cenc: true, close_object: false, source_block_length: b, sender_current_time: false };
    let bytes = alc::new_alc_pkt(&o, &0u128, 1, &p, crate::common::Profile::RFC6726, SystemTime::now());
    let r = std::panic::catch_unwind(|| {
        let pkt = alc::parse_alc_pkt(&bytes).unwrap();
        let mut rcv = mk_receiver(1 << 20);
        rcv.push(&pkt, SystemTime::now());
        rcv.state = State::Error;
    });
    if r.is_err() {
        let func = if fec == 2 { "init" } else { "push_to_block2" };
        report(func, format!("{{\"fec\":{},\"l\":{},\"e\":{},\"b\":{},\"sbn\":{},\"esi\":{},\"payload_len\":{}}}", fec, l, e, b, sbn, esi, payload_len),
               "panic while pushing the packet into ObjectReceiver::push".to_string(), "Ok or Err, no panic".to_string());
        return true;
    }
    false
}

// ---- C09: a monitoring object writer whose open() can be made to fail
#[derive(Debug)]
struct MonWriter { calls: Rc<std::cell::RefCell<Vec<&'static str>>>, fail_open: bool }
impl ObjectWriter for MonWriter {
    fn open(&self, _now: SystemTime) -> Result<()> {
        self.calls.borrow_mut().push("open");
        if self.fail_open { Err(FluteError::new("open refused")) } else { Ok(()) }
    }
    fn write(&self, _sbn: u32, _data: &[u8], _now: SystemTime) -> Result<()> { self.calls.borrow_mut().push("write"); Ok(()) }
    fn complete(&self, _now: SystemTime) { self.calls.borrow_mut().push("complete"); }
    fn error(&self, _now: SystemTime) { self.calls.borrow_mut().push("error"); }
    fn interrupted(&self, _now: SystemTime) { self.calls.borrow_mut().push("interrupted"); }
    fn enable_md5_check(&self) -> bool { false }
}
struct MonBuilder { calls: Rc<std::cell::RefCell<Vec<&'static str>>>, fail_open: bool }
impl ObjectWriterBuilder for MonBuilder {
    fn new_object_writer(&self, _e: &UDPEndpoint, _tsi: &u64, _toi: &u128, _meta: &ObjectMetadata, _now: SystemTime) -> ObjectWriterBuilderResult {
        ObjectWriterBuilderResult::StoreObject(Box::new(MonWriter { calls: self.calls.clone(), fail_open: self.fail_open }))
    }
    fn update_cache_control(&self, _e: &UDPEndpoint, _tsi: &u64, _toi: &u128, _meta: &ObjectMetadata, _now: SystemTime) {}
    fn fdt_received(&self, _e: &UDPEndpoint, _tsi: &u64, _x: &str, _ex: SystemTime, _m: &ObjectMetadata, _d: Duration, _now: SystemTime, _t: Option<SystemTime>) {}
}

fn proto_ok(calls: &[&str]) -> bool {
    // open first and once; writes only after open; at most one terminal call, nothing after it
    if calls.is_empty() { return true; }
    if calls[0] != "open" { return false; }
    let mut terminal = false;
    for c in &calls[1..] {
        if terminal { return false; }
        match *c { "open" => return false, "write" => {}, _ => terminal = true }
    }
    true
}

/// an object of `l` bytes whose packet `pkts` are pushed into an ObjectReceiver for TOI 0 (everything the writer needs is in-band)
fn check_proto(l: u64, fail_open: bool, npkt: usize) -> bool {
    let calls = Rc::new(std::cell::RefCell::new(Vec::new()));
    let builder = Rc::new(MonBuilder { calls: calls.clone(), fail_open });
    let endpoint = UDPEndpoint::new(None, "224.0.0.1".to_owned(), 1234);
    {
        let mut rcv = ObjectReceiver::new(&endpoint, 1, &lct::TOI_FDT, None, builder, 1 << 20, SystemTime::now());
        let o = oti::Oti::new_no_code(4, 8);
        for k in 0..npkt {
            let plen = std::cmp::min(4, (l as usize).saturating_sub(4 * k));
            let p = crate::common::pkt::Pkt { payload: vec![0x41u8; plen], transfer_length: l, esi: k as u32, sbn: 0, toi: 0, fdt_id: Some(1), cenc: lct::Cenc::Null,
                inband_cenc: true, close_object: false, source_block_length: 8, sender_current_time: false };
            let bytes = alc::new_alc_pkt(&o, &0u128, 1, &p, crate::common::Profile::RFC6726, SystemTime::now());
            let pkt = alc::parse_alc_pkt(&bytes).unwrap();
            rcv.push(&pkt, SystemTime::now());
        }
    }
    let c = calls.borrow();
    if std::env::var("VERIF_DEBUG").is_ok() { println!("DEBUG l={} fail_open={} npkt={} calls={:?}", l, fail_open, npkt, *c); }
    if !proto_ok(&c) {
        report("push", format!("{{\"proto\":1,\"l\":{},\"fail_open\":{},\"npkt\":{}}}", l, if fail_open { 1 } else { 0 }, npkt),
               format!("writer saw {:?}", *c), "open, writes, at most one terminal call, nothing after".to_string());
        return true;
    }
    false
}

// ---- attach_fdt (C01 / C03 / C04 / C07 / C19): an FDT instance given as XML text, one File entry for TOI 5
struct AttachIn { check_tl: bool, tl: Option<u64>, cl: Option<u64>, fec: Option<u8>, e: u64, b: u64, maxn: Option<u64>, cenc: u8, pre: usize, inband: bool, sbn: u32, esi: u32, plen: usize }

fn cenc_attr(c: u8) -> Option<&'static str> {
    match c { 1 => Some("null"), 2 => Some("zlib"), 3 => Some("deflate"), 4 => Some("gzip"), 5 => Some("brotli"), _ => None }
}
/// independent table: RFC 6726 content encodings; absent or unknown => not encoded
fn cenc_expected(c: u8) -> lct::Cenc {
    match c { 2 => lct::Cenc::Zlib, 3 => lct::Cenc::Deflate, 4 => lct::Cenc::Gzip, _ => lct::Cenc::Null }
}

fn mk_fdt_xml(i: &AttachIn) -> String {
    let mut f = String::from("<File TOI=\"5\" Content-Location=\"file:///obj5\" Content-Type=\"text/plain\" Content-MD5=\"1B2M2Y8AsgTpgAmY7PhCfg==\" File-ETag=\"etag-5\"");
    if let Some(v) = i.tl { f += &format!(" Transfer-Length=\"{}\"", v); }
    if let Some(v) = i.cl { f += &format!(" Content-Length=\"{}\"", v); }
    if let Some(v) = cenc_attr(i.cenc) { f += &format!(" Content-Encoding=\"{}\"", v); }
    if let Some(v) = i.fec {
        f += &format!(" FEC-OTI-FEC-Encoding-ID=\"{}\" FEC-OTI-Maximum-Source-Block-Length=\"{}\" FEC-OTI-Encoding-Symbol-Length=\"{}\"", v, i.b, i.e);
        if let Some(n) = i.maxn { f += &format!(" FEC-OTI-Max-Number-of-Encoding-Symbols=\"{}\"", n); }
    }
    f += "><Group>file-group</Group></File>";
    format!("<?xml version=\"1.0\" encoding=\"UTF-8\"?><FDT-Instance xmlns=\"urn:IETF:metadata:2005:FLUTE:FDT\" Expires=\"4000000000\">{}<File TOI=\"6\" Content-Location=\"file:///obj6\"/><Group>fdt-group</Group></FDT-Instance>", f)
}

/// a data packet for TOI 5 with a 4-byte FEC payload id (No-Code / RS layout: the caller composes the header word)
fn mk_pkt5(payload_id: u32, payload_len: usize) -> Vec<u8> {
    let mut data = Vec::new();
    lct::push_lct_header(&mut data, 0, &0u128, 1, &5u128, 0, false, false);
    data.extend(payload_id.to_be_bytes());
    data.extend(vec![0x5Au8; payload_len]);
    data
}

fn attach_input_json(i: &AttachIn) -> String {
    format!("{{\"attach\":1,\"check_tl\":{},\"tl_some\":{},\"tl\":{},\"cl_some\":{},\"cl\":{},\"fec\":{},\"e\":{},\"b\":{},\"maxn_some\":{},\"maxn\":{},\"cenc\":{},\"pre\":{},\"inband\":{},\"sbn\":{},\"esi\":{},\"plen\":{},\"fdt_xml\":\"{}\"}}",
        i.check_tl as u8, i.tl.is_some() as u8, i.tl.unwrap_or(0), i.cl.is_some() as u8, i.cl.unwrap_or(0), i.fec.map(|v| v as u32).unwrap_or(255), i.e, i.b,
        i.maxn.is_some() as u8, i.maxn.unwrap_or(0), i.cenc, i.pre, i.inband as u8, i.sbn, i.esi, i.plen, mk_fdt_xml(i).replace('"', "'"))
}

/// attach the instance to a fresh ObjectReceiver (optionally after `pre` cached packets / one in-band FTI packet), compare what it
/// stored with the entry (C01/C03/C07/C19), check the unit's invariant tl_small (C04), push one more packet, attach again (C19)
fn check_attach(i: &AttachIn) -> bool {
    let xml = mk_fdt_xml(i);
    let fdt = match crate::common::fdtinstance::FdtInstance::parse(xml.as_bytes()) { Ok(f) => f, Err(_) => return false };
    let inp = attach_input_json(i);
    let now = SystemTime::now();
    let res = std::panic::catch_unwind(|| -> Option<(String, String)> {
        let mut r = mk_receiver(1 << 20);
        let mut fail: Option<(String, String)> = None;
        if i.inband {
            let o = oti::Oti::new_no_code(4, 8);
            let p = crate::common::pkt::Pkt { payload: vec![0x41u8; 4], transfer_length: 9, esi: 0, sbn: 0, toi: 5, fdt_id: None, cenc: lct::Cenc::Null,
                inband_cenc: true, close_object: false, source_block_length: 8, sender_current_time: false };
            let bytes = alc::new_alc_pkt(&o, &0u128, 1, &p, crate::common::Profile::RFC6726, now);
            r.push(&alc::parse_alc_pkt(&bytes).unwrap(), now);
        } else {
            for k in 0..i.pre {
                let bytes = mk_pkt5(k as u32, i.plen);
                r.push(&alc::parse_alc_pkt(&bytes).unwrap(), now);
            }
        }
        let (oti0, tl0, cenc0) = (r.oti.clone(), r.transfer_length, r.cenc);
        let file = fdt.get_file(&5u128).expect("entry for TOI 5");
        let ok = r.attach_fdt(7, &fdt, now);
        if i.tl.or(i.cl).unwrap_or(0) > 0xFFFF_FFFF_FFFFu64 {
            // C04: a length EXT_FTI could not carry: the entry is ignored, nothing but the timestamp changes
            let unchanged = r.fdt_instance_id.is_none() && r.content_location.is_none() && r.content_type.is_none() && r.content_md5.is_none() && r.e_tag.is_none()
                && r.content_length.is_none() && r.groups.is_empty() && r.cache_control.is_none() && r.cenc == cenc0 && r.transfer_length == tl0
                && format!("{:?}", r.oti) == format!("{:?}", oti0);
            let res = if ok || !unchanged {
                Some((format!("attach_fdt returned {} for an entry of length {}; fdt_instance_id={:?} transfer_length={:?} nb_blocks={} content_location={:?}", ok, i.tl.or(i.cl).unwrap_or(0), r.fdt_instance_id, r.transfer_length, r.nb_blocks, r.content_location),
                      "false and nothing changed: a transfer length >= 2^48 cannot be carried by EXT_FTI and is outside the verified partition arithmetic (C04/C07)".to_string()))
            } else { None };
            r.state = State::Error;
            return res;
        }
        let mut groups = vec!["fdt-group".to_string()];
        groups.push("file-group".to_string());
        let exp_cenc = match cenc0 { Some(c) => c, None => cenc_expected(i.cenc) };
        let exp_oti = if oti0.is_some() { oti0.clone() } else { fdt.get_oti_for_file(file) };
        let exp_tl = match tl0 { Some(l) => l, None => i.tl.or(i.cl).unwrap_or(0) };
        let mut diffs = Vec::new();
        if !ok { diffs.push("returned false".to_string()); }
        if r.fdt_instance_id != Some(7) { diffs.push(format!("fdt_instance_id={:?}", r.fdt_instance_id)); }
        if r.content_location.as_deref() != Some("file:///obj5") { diffs.push(format!("content_location={:?}", r.content_location)); }
        if r.content_type.as_deref() != Some("text/plain") { diffs.push(format!("content_type={:?}", r.content_type)); }
        if r.content_md5.as_deref() != Some("1B2M2Y8AsgTpgAmY7PhCfg==") { diffs.push(format!("content_md5={:?}", r.content_md5)); }
        if r.e_tag.as_deref() != Some("etag-5") { diffs.push(format!("e_tag={:?}", r.e_tag)); }
        if r.content_length != i.cl.map(|c| c as usize) { diffs.push(format!("content_length={:?}", r.content_length)); }
        if r.groups != groups { diffs.push(format!("groups={:?}", r.groups)); }
        if r.cache_control != Some(file.get_object_cache_control(fdt.get_expiration_date())) { diffs.push(format!("cache_control={:?}", r.cache_control)); }
        if r.cenc != Some(exp_cenc) { diffs.push(format!("cenc={:?} expected {:?}", r.cenc, exp_cenc)); }
        if format!("{:?}", r.oti) != format!("{:?}", exp_oti) { diffs.push(format!("oti={:?} expected {:?}", r.oti, exp_oti)); }
        if r.transfer_length != Some(exp_tl) { diffs.push(format!("transfer_length={:?} expected {}", r.transfer_length, exp_tl)); }
        if !diffs.is_empty() {
            fail = Some((format!("after attach_fdt: {}", diffs.join(", ")), "the attributes of the File entry (C01/C03/C07/C19 clauses of attach_fdt)".to_string()));
        }
        // C04: invariant tl_small (precondition of init_blocks_partitioning, part of every later push's precondition)
        if fail.is_none() && i.check_tl {
            if let Some(l) = r.transfer_length {
                if l >= (1u64 << 48) {
                    fail = Some((format!("attach_fdt stored transfer_length={} (>= 2^48) unchecked and partitioned the object: nb_blocks={} a_large={} a_small={} nb_a_large={}; later pushes call partition::block_length outside its verified domain", l, r.nb_blocks, r.a_large, r.a_small, r.nb_a_large),
                                 "transfer length < 2^48 (what EXT_FTI can carry; invariant tl_small, C07 arithmetic is verified below 2^48 only), or the entry refused".to_string()));
                }
            }
        }
        // the object stays usable: one more packet, then a second instance must be refused and change nothing
        let header = match i.fec { Some(5) => (i.sbn << 8) | (i.esi & 0xFF), _ => (i.sbn << 16) | (i.esi & 0xFFFF) };
        let bytes = mk_pkt5(header, i.plen);
        r.push(&alc::parse_alc_pkt(&bytes).unwrap(), now);
        let before = (r.fdt_instance_id, r.content_location.clone(), r.transfer_length, r.cenc, format!("{:?}", r.oti), r.groups.clone(), r.state);
        let again = r.attach_fdt(8, &fdt, now);
        let after = (r.fdt_instance_id, r.content_location.clone(), r.transfer_length, r.cenc, format!("{:?}", r.oti), r.groups.clone(), r.state);
        if fail.is_none() && (again || before != after) {
            fail = Some((format!("second attach_fdt returned {} / state changed: {:?} -> {:?}", again, before, after), "false, nothing changed (C19)".to_string()));
        }
        r.state = State::Error; // nothing to report on drop
        fail
    });
    match res {
        Err(_) => { report("attach_fdt", inp, "panic in attach_fdt / the pushes around it".to_string(), "no panic for any FDT attribute value (C04)".to_string()); true }
        Ok(Some((obs, exp))) => { report("attach_fdt", inp, obs, exp); true }
        Ok(None) => false,
    }
}

/// C01/C02/C09: an EMPTY object (transfer length 0, in-band FTI) whose packet and FDT arrive in any order: the writer must see
/// open, complete (open, error when open fails) and the object must end Completed (Error) -- never "Completed" without a writer
fn check_empty_order(order: usize, fail_open: bool) -> bool {
    let calls = Rc::new(std::cell::RefCell::new(Vec::new()));
    let builder = Rc::new(MonBuilder { calls: calls.clone(), fail_open });
    let endpoint = UDPEndpoint::new(None, "224.0.0.1".to_owned(), 1234);
    let now = SystemTime::now();
    let xml = mk_fdt_xml(&AttachIn { check_tl: false, tl: Some(0), cl: Some(0), fec: Some(0), e: 4, b: 8, maxn: None, cenc: 0, pre: 0, inband: false, sbn: 0, esi: 0, plen: 0 });
    let fdt = crate::common::fdtinstance::FdtInstance::parse(xml.as_bytes()).unwrap();
    let o = oti::Oti::new_no_code(4, 8);
    let p = crate::common::pkt::Pkt { payload: vec![], transfer_length: 0, esi: 0, sbn: 0, toi: 5, fdt_id: None, cenc: lct::Cenc::Null,
        inband_cenc: true, close_object: false, source_block_length: 0, sender_current_time: false };
    let bytes = alc::new_alc_pkt(&o, &0u128, 1, &p, crate::common::Profile::RFC6726, now);
    let steps: &[u8] = match order { 0 => b"PF", 1 => b"PFP", 2 => b"FP", _ => b"PPF" };
    let mut trail = Vec::new();
    let final_state;
    {
        let mut rcv = ObjectReceiver::new(&endpoint, 1, &5u128, None, builder, 1 << 20, now);
        for st in steps {
            if *st == b'P' { rcv.push(&alc::parse_alc_pkt(&bytes).unwrap(), now); } else { rcv.attach_fdt(7, &fdt, now); }
            trail.push(format!("{}:{:?}/{}calls", *st as char, rcv.state, calls.borrow().len()));
            // "Completed" must never be reached behind the writer's back
            if rcv.state == State::Completed && !calls.borrow().contains(&"complete") { break; }
        }
        final_state = rcv.state;
    }
    let c = calls.borrow();
    let expected: Vec<&str> = if fail_open { vec!["open", "error"] } else { vec!["open", "complete"] };
    let exp_state = if fail_open { State::Error } else { State::Completed };
    if *c != expected || final_state != exp_state {
        report("push", format!("{{\"empty_order\":1,\"order\":{},\"fail_open\":{},\"steps\":\"{}\"}}", order, fail_open as u8, String::from_utf8_lossy(steps)),
               format!("empty object, steps {} (P = its packet with EXT_FTI L=0, F = attach_fdt of its FDT): state {:?}, writer saw {:?} [{}]", String::from_utf8_lossy(steps), final_state, *c, trail.join(" ")),
               format!("state {:?}, writer saw {:?}", exp_state, expected));
        return true;
    }
    false
}

/// C02: a No-Code object of `l` bytes (E = 4, B = 8) whose packets carry NO EXT_FTI and ALL arrive, in order, before the FDT (the last one
/// with the close-object flag when `close` is set): they are cached, and attach_fdt must replay them in their order of arrival -- the
/// writer sees open, writes, complete
fn check_all_before_fdt(l: usize, close: bool) -> bool {
    let calls = Rc::new(std::cell::RefCell::new(Vec::new()));
    let builder = Rc::new(MonBuilder { calls: calls.clone(), fail_open: false });
    let endpoint = UDPEndpoint::new(None, "224.0.0.1".to_owned(), 1234);
    let now = SystemTime::now();
    let xml = mk_fdt_xml(&AttachIn { check_tl: false, tl: Some(l as u64), cl: Some(l as u64), fec: Some(0), e: 4, b: 8, maxn: None, cenc: 0, pre: 0, inband: false, sbn: 0, esi: 0, plen: 0 });
    let fdt = crate::common::fdtinstance::FdtInstance::parse(xml.as_bytes()).unwrap();
    // RFC 5052 partition of T = ceil(l / 4) symbols into N = ceil(T / 8) blocks
    let t = (l + 3) / 4;
    let n = (t + 7) / 8;
    let (a_large, a_small) = ((t + n - 1) / n, t / n);
    let nb_large = t - a_small * n;
    let mut pkts: Vec<Vec<u8>> = Vec::new();
    let mut left = l;
    for sbn in 0..n {
        let k = if sbn < nb_large { a_large } else { a_small };
        for esi in 0..k {
            let plen = std::cmp::min(4, left);
            left -= plen;
            let last = sbn + 1 == n && esi + 1 == k;
            let mut data = Vec::new();
            lct::push_lct_header(&mut data, 0, &0u128, 1, &5u128, 0, close && last, false);
            data.extend((((sbn as u32) << 16) | esi as u32).to_be_bytes());
            data.extend(vec![0x30u8 + (esi as u8 % 10); plen]);
            pkts.push(data);
        }
    }
    let final_state;
    let cached;
    {
        let mut rcv = ObjectReceiver::new(&endpoint, 1, &5u128, None, builder, 1 << 20, now);
        for b in &pkts { rcv.push(&alc::parse_alc_pkt(b).unwrap(), now); }
        cached = rcv.cache.len();
        rcv.attach_fdt(7, &fdt, now);
        final_state = rcv.state;
    }
    let c = calls.borrow();
    let shape_ok = c.len() >= 3 && c[0] == "open" && c[c.len() - 1] == "complete" && c[1..c.len() - 1].iter().all(|x| *x == "write");
    if !shape_ok || final_state != State::Completed || cached != pkts.len() {
        report("push_from_cache", format!("{{\"all_before_fdt\":1,\"l\":{},\"close\":{},\"packets\":{}}}", l, close as u8, pkts.len()),
               format!("{} packets without EXT_FTI pushed in order ({} cached), then attach_fdt: state {:?}, writer saw {:?}", pkts.len(), cached, final_state, *c),
               "every packet cached, then state Completed and the writer saw open, write(s), complete".to_string());
        return true;
    }
    false
}

fn num(inp: &str, k: &str) -> usize {
    inp.split(&format!("\"{}\":", k)).nth(1).unwrap().trim().split(|c: char| !c.is_ascii_digit()).next().unwrap().parse().unwrap()
}

#[test]
fn search() {
    if let Ok(inp) = std::env::var("VERIF_REPLAY_INPUT") {
        std::panic::set_hook(Box::new(|_| {}));
        let bad = if inp.contains("\"all_before_fdt\"") { check_all_before_fdt(num(&inp, "l"), num(&inp, "close") == 1) }
            else if inp.contains("\"empty_order\"") { check_empty_order(num(&inp, "order"), num(&inp, "fail_open") == 1) }
            else if inp.contains("\"attach\"") {
                let opt = |f: &str, v: &str| if num(&inp, f) == 1 { Some(num(&inp, v) as u64) } else { None };
                check_attach(&AttachIn { check_tl: num(&inp, "check_tl") == 1, tl: opt("tl_some", "tl"), cl: opt("cl_some", "cl"), fec: if num(&inp, "fec") == 255 { None } else { Some(num(&inp, "fec") as u8) },
                    e: num(&inp, "e") as u64, b: num(&inp, "b") as u64, maxn: opt("maxn_some", "maxn"), cenc: num(&inp, "cenc") as u8, pre: num(&inp, "pre"),
                    inband: num(&inp, "inband") == 1, sbn: num(&inp, "sbn") as u32, esi: num(&inp, "esi") as u32, plen: num(&inp, "plen") })
            }
            else if inp.contains("\"limit\"") { check_cache(num(&inp, "limit"), num(&inp, "pkt_len"), num(&inp, "n")) }
            else if inp.contains("\"proto\"") { check_proto(num(&inp, "l") as u64, num(&inp, "fail_open") == 1, num(&inp, "npkt")) }
            else if inp.contains("\"fec\"") { check_push(num(&inp, "fec") as u8, num(&inp, "l") as u64, num(&inp, "e") as u16, num(&inp, "b") as u32, num(&inp, "sbn") as u32, num(&inp, "esi") as u32, num(&inp, "payload_len")) }
            else { false };
        println!("WSTATS {{\"evaluations\":1,\"mode\":\"replay\"}}");
        assert!(!bad, "replayed input still fails");
        return;
    }
    let mut evals = 0u64;
    let mut found = 0;
    for limit in [0usize, 1, 64, 1000] {
        for pkt_len in [0usize, 1, 100] {
            evals += 1;
            if found < 2 && check_cache(limit, pkt_len, 40) { found += 1; }
        }
    }
    std::panic::set_hook(Box::new(|_| {}));
    let mut found2 = 0;
    for fec in [0u8, 2] {
        for (l, e, b) in [(10u64, 1u16, 5u32), (10, 3, 2), (1, 1, 1), (4000, 16, 64)] {
            let t = (l + e as u64 - 1) / e as u64;
            let n = ((t + b as u64 - 1) / b as u64) as u32;
            for sbn in [0u32, n.saturating_sub(1), n, n + 1, n + 7, 4000, 65535] {
                for esi in [0u32, 1, b, 255] {
                    evals += 1;
                    if found2 < 2 && check_push(fec, l, e, b, sbn, esi, e as usize) { found2 += 1; }
                }
            }
        }
    }
    found += found2;
    for l in [0u64, 1, 4, 9] {
        for fail_open in [false, true] {
            for npkt in [1usize, 2, 3, 4] {
                evals += 1;
                if check_proto(l, fail_open, npkt) { found += 1; }
            }
        }
    }
    // attach_fdt: FDT attribute values at and around every representation limit (B and E small whenever the length is large, so that
    // the decoders the code allocates stay small)
    let mut found3 = 0;
    let big: [u64; 7] = [(1 << 48) - 1, 1 << 48, (1 << 48) + 1, 1 << 56, (1 << 63) + 1, u64::MAX - 1, u64::MAX];
    let small: [u64; 6] = [0, 1, 7, 8, 9, 4000];
    let mut attach_cases: Vec<AttachIn> = Vec::new();
    for &tl in small.iter().chain(big.iter()) {
        for (e, b) in [(1u64, 1u64), (4, 8), (16, 64), (2, 1 << 31), (0, 8), (4, 0), (65535, 1), (65536, 8), (65537, 8), (4, 1 << 32), (4, (1 << 32) + 8), (u64::MAX, u64::MAX)] {
            if tl > 4000 && (b > 64 || e > 16) && !(e == 0 || b == 0 || e == 65536 || b == 1 << 32) { continue; }
            for fec in [Some(0u8), Some(5), Some(129), Some(77), None] {
                for (pre, inband) in [(0usize, false), (2, false), (0, true)] {
                    attach_cases.push(AttachIn { check_tl: false, tl: Some(tl), cl: None, fec, e, b, maxn: if fec == Some(5) { Some(b.saturating_add(2)) } else { None },
                        cenc: (tl % 6) as u8, pre, inband, sbn: 0, esi: 0, plen: std::cmp::min(e, 16) as usize });
                }
            }
        }
    }
    for &cl in [0u64, 5, 1 << 48, u64::MAX].iter() {
        for tl in [None, Some(5u64)] {
            for cenc in 0u8..6 {
                attach_cases.push(AttachIn { check_tl: false, tl, cl: Some(cl), fec: Some(0), e: 4, b: 8, maxn: None, cenc, pre: 1, inband: false, sbn: 0, esi: 1, plen: 4 });
            }
        }
    }
    for (sbn, esi) in [(0u32, 0u32), (0, 7), (1, 0), (4096, 0), (4097, 1), (65535, 65535)] {
        for &tl in [9u64, 1 << 48, u64::MAX].iter() {
            attach_cases.push(AttachIn { check_tl: false, tl: Some(tl), cl: None, fec: Some(0), e: 4, b: 8, maxn: None, cenc: 0, pre: 3, inband: false, sbn, esi, plen: 4 });
        }
    }
    // pass 1: panics, wrong attribute values, lengths >= 2^48 not refused; pass 2: the invariant tl_small on whatever was accepted
    for c in attach_cases.iter() {
        evals += 1;
        if found3 < 2 && check_attach(c) { found3 += 1; }
    }
    let mut found4 = 0;
    for c in attach_cases.iter_mut() {
        if c.tl.unwrap_or(0) < (1 << 48) && c.cl.unwrap_or(0) < (1 << 48) { continue; }
        c.check_tl = true;
        evals += 1;
        if found4 < 1 && check_attach(c) { found4 += 1; }
    }
    found += found4;
    found += found3;
    for l in [16usize, 13, 1, 40, 100] {
        for close in [false, true] {
            evals += 1;
            if check_all_before_fdt(l, close) { found += 1; }
        }
    }
    for order in 0..4usize {
        for fail_open in [false, true] {
            evals += 1;
            if check_empty_order(order, fail_open) { found += 1; }
        }
    }
    println!("WSTATS {{\"evaluations\":{},\"mode\":\"search\"}}", evals);
    assert!(found == 0, "witness found");
}
