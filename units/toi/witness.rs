// Native witness search for unit `toi` (appended to src/sender/toiallocator.rs in a scratch copy).
use super::*;

fn mask(w: TOIMaxLength) -> u128 {
    match w {
        TOIMaxLength::ToiMax16 => (1u128 << 16) - 1,
        TOIMaxLength::ToiMax32 => (1u128 << 32) - 1,
        TOIMaxLength::ToiMax48 => (1u128 << 48) - 1,
        TOIMaxLength::ToiMax64 => (1u128 << 64) - 1,
        TOIMaxLength::ToiMax80 => (1u128 << 80) - 1,
        TOIMaxLength::ToiMax112 => (1u128 << 112) - 1,
    }
}

fn wname(w: TOIMaxLength) -> &'static str {
    match w {
        TOIMaxLength::ToiMax16 => "ToiMax16",
        TOIMaxLength::ToiMax32 => "ToiMax32",
        TOIMaxLength::ToiMax48 => "ToiMax48",
        TOIMaxLength::ToiMax64 => "ToiMax64",
        TOIMaxLength::ToiMax80 => "ToiMax80",
        TOIMaxLength::ToiMax112 => "ToiMax112",
    }
}

fn wparse(s: &str) -> TOIMaxLength {
    match s {
        "ToiMax16" => TOIMaxLength::ToiMax16,
        "ToiMax32" => TOIMaxLength::ToiMax32,
        "ToiMax48" => TOIMaxLength::ToiMax48,
        "ToiMax64" => TOIMaxLength::ToiMax64,
        "ToiMax80" => TOIMaxLength::ToiMax80,
        _ => TOIMaxLength::ToiMax112,
    }
}

struct Rng(u64);
impl Rng {
    fn next(&mut self) -> u64 {
        self.0 ^= self.0 << 13;
        self.0 ^= self.0 >> 7;
        self.0 ^= self.0 << 17;
        self.0
    }
}

/// ops: 0 = allocate, k>0 = release the (k-1 mod live)-th live TOI.  Returns a description of the first misbehaviour.
fn run_history(w: TOIMaxLength, init: Option<u128>, ops: &[u32]) -> Option<(String, String)> {
    let r = std::panic::catch_unwind(|| {
        let mut a = ToiAllocatorInternal::new(w, init);
        let mut live: Vec<u128> = Vec::new();
        for (k, op) in ops.iter().enumerate() {
            if *op == 0 || live.is_empty() {
                let t = a.allocate();
                if t == 0 {
                    return Some((format!("step {} allocate returned 0", k), "non-zero TOI".to_string()));
                }
                if t > mask(w) {
                    // wire check: does the LCT header carry it?
                    let mut data = Vec::new();
                    crate::common::lct::push_lct_header(&mut data, 0, &0u128, 1, &t, 0, false, false);
                    let wire = crate::common::lct::parse_lct_header(&data).map(|h| h.toi).unwrap_or(0);
                    return Some((
                        format!("step {} allocate returned {} (> 2^w-1 = {}); TOI on the wire = {}", k, t, mask(w), wire),
                        "TOI within the configured width and equal on the wire".to_string(),
                    ));
                }
                if live.contains(&t) {
                    return Some((format!("step {} allocate returned live TOI {}", k, t), "fresh TOI".to_string()));
                }
                live.push(t);
            } else {
                let idx = ((*op - 1) as usize) % live.len();
                let t = live.remove(idx);
                a.release(t);
            }
        }
        None
    });
    match r {
        Ok(x) => x,
        Err(_) => Some(("panic".to_string(), "no panic".to_string())),
    }
}

fn report(func: &str, w: TOIMaxLength, init: Option<u128>, ops: &[u32], observed: &str, expected: &str) {
    let init_s = match init {
        Some(n) => format!("\"{}\"", n),
        None => "null".to_string(),
    };
    let ops_s: Vec<String> = ops.iter().map(|o| o.to_string()).collect();
    println!(
        "WITNESS {{\"fn\":\"{}\",\"input\":{{\"width\":\"{}\",\"init\":{},\"ops\":[{}]}},\"observed\":\"{}\",\"expected\":\"{}\"}}",
        func, wname(w), init_s, ops_s.join(","), observed, expected
    );
}

fn classify(obs: &str) -> &'static str {
    // which function's contract the history violates (used to attach the witness to the failed obligation)
    if obs.contains("> 2^w-1") { "to_max_length" } else { "allocate" }
}

#[test]
fn search() {
    std::panic::set_hook(Box::new(|_| {}));
    if let Ok(inp) = std::env::var("VERIF_REPLAY_INPUT") {
        // {"width":"ToiMax112","init":"123"|null,"ops":[0,0,1]}
        let w = wparse(inp.split("\"width\":").nth(1).unwrap().trim().trim_start_matches('"').split('"').next().unwrap());
        let init_part = inp.split("\"init\":").nth(1).unwrap().trim();
        let init = if init_part.starts_with("null") { None } else { Some(init_part.trim_start_matches('"').split('"').next().unwrap().parse::<u128>().unwrap()) };
        let ops_part = inp.split("\"ops\":").nth(1).unwrap();
        let ops: Vec<u32> = ops_part[ops_part.find('[').unwrap() + 1..ops_part.find(']').unwrap()]
            .split(',').filter(|s| !s.trim().is_empty()).map(|s| s.trim().parse().unwrap()).collect();
        // a random initial value (init == null) is replayed 64 times
        let reps = if init.is_none() { 64 } else { 1 };
        let mut bad = false;
        for _ in 0..reps {
            if let Some((o, e)) = run_history(w, init, &ops) {
                report(classify(&o), w, init, &ops, &o, &e);
                bad = true;
                break;
            }
        }
        println!("WSTATS {{\"evaluations\":{},\"mode\":\"replay\"}}", reps);
        assert!(!bad, "replayed input still fails");
        return;
    }
    let thorough = std::env::var("VERIF_TIER").map(|t| t == "thorough").unwrap_or(false);
    let seed = std::env::var("VERIF_SEED").ok().and_then(|s| s.parse::<u64>().ok()).unwrap_or(0);
    let mut rng = Rng(0x9E3779B97F4A7C15 ^ (seed.wrapping_mul(0x2545F4914F6CDD1D) | 1));
    let widths = [TOIMaxLength::ToiMax16, TOIMaxLength::ToiMax32, TOIMaxLength::ToiMax48, TOIMaxLength::ToiMax64, TOIMaxLength::ToiMax80, TOIMaxLength::ToiMax112];
    let mut evals = 0u64;
    let mut found: Vec<String> = Vec::new();
    for &w in &widths {
        let m = mask(w);
        let mut inits: Vec<Option<u128>> = vec![Some(0), Some(1), Some(2), Some(m - 2), Some(m - 1), Some(m), Some(m.wrapping_add(1)), Some(m.wrapping_add(2)), Some(u128::MAX - 1), Some(u128::MAX), None, None, None];
        for _ in 0..4 {
            inits.push(Some(((rng.next() as u128) << 64 | rng.next() as u128) >> (rng.next() % 128)));
        }
        for init in inits {
            // exhaustive short histories over {allocate, release#0, release#1}
            let depth = if thorough { 7 } else { 5 };
            let mut ops = vec![0u32; depth];
            loop {
                evals += 1;
                if let Some((o, e)) = run_history(w, init, &ops) {
                    let key = format!("{}:{}", classify(&o), wname(w));
                    if !found.contains(&key) && found.len() < 6 {
                        // shrink: shortest prefix that fails
                        let mut k = 1;
                        while k < ops.len() && run_history(w, init, &ops[..k]).is_none() { k += 1; }
                        report(classify(&o), w, init, &ops[..k], &o, &e);
                        found.push(key);
                    }
                    break;
                }
                // next history (base 3)
                let mut i = 0;
                while i < depth { ops[i] += 1; if ops[i] < 3 { break; } ops[i] = 0; i += 1; }
                if i == depth { break; }
            }
            // long random histories around the wrap
            for _ in 0..(if thorough { 40 } else { 6 }) {
                let n = 40 + (rng.next() % 200) as usize;
                let ops: Vec<u32> = (0..n).map(|_| (rng.next() % 4) as u32).collect();
                evals += 1;
                if let Some((o, e)) = run_history(w, init, &ops) {
                    let key = format!("{}:{}", classify(&o), wname(w));
                    if !found.contains(&key) && found.len() < 6 {
                        let mut k = 1;
                        while k < ops.len() && run_history(w, init, &ops[..k]).is_none() { k += 1; }
                        report(classify(&o), w, init, &ops[..k], &o, &e);
                        found.push(key);
                    }
                }
            }
        }
    }
    println!("WSTATS {{\"evaluations\":{},\"mode\":\"search\"}}", evals);
    assert!(found.is_empty(), "witness found");
}
