// @READY (registered in vf/props.py)
// appended to src/fec/rscodec.rs (scratch copy only) -- C08: Reed-Solomon source-shard slicing (iterator adapters, outside Verus)
#[cfg(any(kani, test))]
#[allow(dead_code, unused_imports, unused_macros)]
mod verif_kani {
    use super::*;
    use crate::tools::error::verif_kani_stubs::*;
    use crate::{vk_assume, vk_cover};

    const MAXLEN: usize = 6;

    /// source shard i == buffer[i*E .. (i+1)*E] zero padded to E, followed by `parity` all-zero placeholders of E bytes
    /// (filled by reed-solomon-erasure `encode`), exactly k + parity shards, every shard exactly E bytes
    fn check_slices(buf: [u8; MAXLEN], len: usize, e: usize, parity: usize) {
        let k = (len + e - 1) / e;
        let params = RSCodecParam { nb_source_symbols: k, nb_parity_symbols: parity, encoding_symbol_length: e };
        let buffer = &buf[..len];
        let shards = match params.create_shards(buffer) {
            Ok(s) => s,
            Err(_) => {
                assert!(false); // k == ceil(len/E) is what Block::new_from_buffer passes
                return;
            }
        };
        assert!(shards.len() == k + parity);
        let mut i = 0;
        while i < shards.len() {
            assert!(shards[i].len() == e);
            let mut j = 0;
            while j < e {
                let at = i * e + j;
                let want = if i < k && at < len { buffer[at] } else { 0 };
                assert!(shards[i][j] == want);
                j += 1;
            }
            i += 1;
        }
    }

    // Lengths are enumerated by a concrete loop, E is fixed per harness (bytes and parity stay symbolic).  Measured on the
    // way: symbolic len / E / parity -> CBMC passed 18 GB after 3 minutes; len x parity enumerated (18 calls per harness)
    // -> E = 2 passed 14 GB after 4 minutes; symbolic parity with len 1..=6 enumerated -> E = 2 needed 296 s.  Hence two
    // harnesses per E (len 1..=3 and len 4..=6).

    fn check_slices_range(buf: [u8; MAXLEN], lo: usize, hi: usize, e: usize, parity: usize) {
        let mut len = lo;
        while len <= hi {
            check_slices(buf, len, e, parity);
            len += 1;
        }
    }

    // @HARNESS id=C08.rs.create_shards.slices_e1_lo tier=quick kind=Kb props=C08 bound="every buffer of 1..=3 symbolic bytes, E = 1, parity in 0..=2, k = ceil(len/E)" timeout=900
    #[cfg(kani)]
    #[kani::proof]
    #[kani::unwind(9)]
    #[kani::stub(alloc::fmt::format, stub_format)]
    #[kani::stub(crate::tools::error::FluteError::new, stub_flute_error_new)]
    fn create_shards_slices_e1_lo() {
        h_create_shards_slices_e1_lo(kani::any(), kani::any());
    }
    pub fn h_create_shards_slices_e1_lo(buf: [u8; MAXLEN], parity: usize) {
        vk_assume!(parity <= 2);
        check_slices_range(buf, 1, 3, 1, parity);
        vk_cover!(buf[3 - 1] == 0xA5 && parity == 2);
        vk_cover!(parity == 0);
    }

    // (E = 1, len 4..=6 in one harness passed 14 GB after 3.5 minutes: one harness per length)
    // @HARNESS id=C08.rs.create_shards.slices_e1_len4 tier=quick kind=Kb props=C08 bound="every buffer of 4 symbolic bytes, E = 1, parity in 0..=2, k = ceil(len/E)" timeout=900
    #[cfg(kani)]
    #[kani::proof]
    #[kani::unwind(9)]
    #[kani::stub(alloc::fmt::format, stub_format)]
    #[kani::stub(crate::tools::error::FluteError::new, stub_flute_error_new)]
    fn create_shards_slices_e1_len4() {
        h_create_shards_slices_e1_len4(kani::any(), kani::any());
    }
    pub fn h_create_shards_slices_e1_len4(buf: [u8; MAXLEN], parity: usize) {
        vk_assume!(parity <= 2);
        check_slices_range(buf, 4, 4, 1, parity);
        vk_cover!(buf[4 - 1] == 0xA5 && parity == 2);
        vk_cover!(parity == 0);
    }

    // @HARNESS id=C08.rs.create_shards.slices_e1_len5 tier=quick kind=Kb props=C08 bound="every buffer of 5 symbolic bytes, E = 1, parity in 0..=2, k = ceil(len/E)" timeout=900
    #[cfg(kani)]
    #[kani::proof]
    #[kani::unwind(9)]
    #[kani::stub(alloc::fmt::format, stub_format)]
    #[kani::stub(crate::tools::error::FluteError::new, stub_flute_error_new)]
    fn create_shards_slices_e1_len5() {
        h_create_shards_slices_e1_len5(kani::any(), kani::any());
    }
    pub fn h_create_shards_slices_e1_len5(buf: [u8; MAXLEN], parity: usize) {
        vk_assume!(parity <= 2);
        check_slices_range(buf, 5, 5, 1, parity);
        vk_cover!(buf[5 - 1] == 0xA5 && parity == 2);
        vk_cover!(parity == 0);
    }

    // @HARNESS id=C08.rs.create_shards.slices_e1_len6 tier=quick kind=Kb props=C08 bound="every buffer of 6 symbolic bytes, E = 1, parity in 0..=2, k = ceil(len/E)" timeout=900
    #[cfg(kani)]
    #[kani::proof]
    #[kani::unwind(9)]
    #[kani::stub(alloc::fmt::format, stub_format)]
    #[kani::stub(crate::tools::error::FluteError::new, stub_flute_error_new)]
    fn create_shards_slices_e1_len6() {
        h_create_shards_slices_e1_len6(kani::any(), kani::any());
    }
    pub fn h_create_shards_slices_e1_len6(buf: [u8; MAXLEN], parity: usize) {
        vk_assume!(parity <= 2);
        check_slices_range(buf, 6, 6, 1, parity);
        vk_cover!(buf[6 - 1] == 0xA5 && parity == 2);
        vk_cover!(parity == 0);
    }

    // @HARNESS id=C08.rs.create_shards.slices_e2_lo tier=quick kind=Kb props=C08 bound="every buffer of 1..=3 symbolic bytes, E = 2, parity in 0..=2, k = ceil(len/E)" timeout=900
    #[cfg(kani)]
    #[kani::proof]
    #[kani::unwind(9)]
    #[kani::stub(alloc::fmt::format, stub_format)]
    #[kani::stub(crate::tools::error::FluteError::new, stub_flute_error_new)]
    fn create_shards_slices_e2_lo() {
        h_create_shards_slices_e2_lo(kani::any(), kani::any());
    }
    pub fn h_create_shards_slices_e2_lo(buf: [u8; MAXLEN], parity: usize) {
        vk_assume!(parity <= 2);
        check_slices_range(buf, 1, 3, 2, parity);
        vk_cover!(buf[3 - 1] == 0xA5 && parity == 2);
        vk_cover!(parity == 0);
    }

    // @HARNESS id=C08.rs.create_shards.slices_e2_hi tier=quick kind=Kb props=C08 bound="every buffer of 4..=6 symbolic bytes, E = 2, parity in 0..=2, k = ceil(len/E)" timeout=900
    #[cfg(kani)]
    #[kani::proof]
    #[kani::unwind(9)]
    #[kani::stub(alloc::fmt::format, stub_format)]
    #[kani::stub(crate::tools::error::FluteError::new, stub_flute_error_new)]
    fn create_shards_slices_e2_hi() {
        h_create_shards_slices_e2_hi(kani::any(), kani::any());
    }
    pub fn h_create_shards_slices_e2_hi(buf: [u8; MAXLEN], parity: usize) {
        vk_assume!(parity <= 2);
        check_slices_range(buf, 4, 6, 2, parity);
        vk_cover!(buf[6 - 1] == 0xA5 && parity == 2);
        vk_cover!(parity == 0);
    }

    // @HARNESS id=C08.rs.create_shards.slices_e3_lo tier=quick kind=Kb props=C08 bound="every buffer of 1..=3 symbolic bytes, E = 3, parity in 0..=2, k = ceil(len/E)" timeout=900
    #[cfg(kani)]
    #[kani::proof]
    #[kani::unwind(9)]
    #[kani::stub(alloc::fmt::format, stub_format)]
    #[kani::stub(crate::tools::error::FluteError::new, stub_flute_error_new)]
    fn create_shards_slices_e3_lo() {
        h_create_shards_slices_e3_lo(kani::any(), kani::any());
    }
    pub fn h_create_shards_slices_e3_lo(buf: [u8; MAXLEN], parity: usize) {
        vk_assume!(parity <= 2);
        check_slices_range(buf, 1, 3, 3, parity);
        vk_cover!(buf[3 - 1] == 0xA5 && parity == 2);
        vk_cover!(parity == 0);
    }

    // @HARNESS id=C08.rs.create_shards.slices_e3_hi tier=quick kind=Kb props=C08 bound="every buffer of 4..=6 symbolic bytes, E = 3, parity in 0..=2, k = ceil(len/E)" timeout=900
    #[cfg(kani)]
    #[kani::proof]
    #[kani::unwind(9)]
    #[kani::stub(alloc::fmt::format, stub_format)]
    #[kani::stub(crate::tools::error::FluteError::new, stub_flute_error_new)]
    fn create_shards_slices_e3_hi() {
        h_create_shards_slices_e3_hi(kani::any(), kani::any());
    }
    pub fn h_create_shards_slices_e3_hi(buf: [u8; MAXLEN], parity: usize) {
        vk_assume!(parity <= 2);
        check_slices_range(buf, 4, 6, 3, parity);
        vk_cover!(buf[6 - 1] == 0xA5 && parity == 2);
        vk_cover!(parity == 0);
    }

    // @HARNESS id=C08.rs.create_shards.count_mismatch_is_error tier=quick kind=Kb props=C08 bound="every buffer of 3..=4 symbolic bytes, E = 2, announced k in ceil(len/E)-1 ..= ceil(len/E)+1" timeout=900
    /// create_shards is Ok exactly when the announced number of source symbols is ceil(len/E)
    /// (bound shrunk: with E in 1..=3 and len in 1..=6 -- 54 calls -- CBMC was still running after 7.5 minutes)
    #[cfg(kani)]
    #[kani::proof]
    #[kani::unwind(9)]
    #[kani::stub(alloc::fmt::format, stub_format)]
    #[kani::stub(crate::tools::error::FluteError::new, stub_flute_error_new)]
    fn create_shards_count() {
        h_create_shards_count(kani::any());
    }
    pub fn h_create_shards_count(buf: [u8; MAXLEN]) {
        let e = 2usize;
        let mut len = 3usize;
        while len <= 4 {
            let want = (len + e - 1) / e;
            let mut k = want - 1;
            while k <= want + 1 {
                let params = RSCodecParam { nb_source_symbols: k, nb_parity_symbols: 1, encoding_symbol_length: e };
                let r = params.create_shards(&buf[..len]);
                assert!(r.is_ok() == (k == want));
                k += 1;
            }
            len += 1;
        }
        vk_cover!(buf[3] == 0xA5);
    }

    // @HARNESS id=C08.rs.new.rejects_zero_source_symbols tier=quick kind=Kb props=C08 bound="k = 0, parity in 0..=255, every E" timeout=900
    /// RSGalois8Codec::new(0, parity, E) is Err.  Block::create_shards_reed_solomon_gf8 calls `new(nb_source_symbols, ..)?`
    /// BEFORE `encode`, and nb_source_symbols = ceil(buffer.len()/E) is 0 exactly for an empty buffer, so the
    /// `shards.last_mut().unwrap()` of RSCodecParam::create_shards (a panic on an empty buffer) is not reached from Block.
    #[cfg(kani)]
    #[kani::proof]
    #[kani::unwind(4)]
    #[kani::stub(alloc::fmt::format, stub_format)]
    #[kani::stub(crate::tools::error::FluteError::new, stub_flute_error_new)]
    fn new_rejects_zero_source_symbols() {
        h_new_rejects_zero_source_symbols(kani::any(), kani::any());
    }
    pub fn h_new_rejects_zero_source_symbols(parity: u8, e: u16) {
        let r = RSGalois8Codec::new(0, parity as usize, e as usize);
        assert!(r.is_err());
        vk_cover!(parity > 0 && e > 0);
    }
}
