// appended to src/fec/rscodec.rs (scratch copy only) -- C08: Reed-Solomon source-shard slicing (iterator adapters, outside Verus)
#[cfg(any(kani, test))]
#[allow(dead_code, unused_imports, unused_macros)]
mod verif_kani {
    use super::*;
    use crate::tools::error::verif_kani_stubs::*;
    use crate::{vk_assume, vk_cover};

    const MAXLEN: usize = 6;

    // @HARNESS id=C08.rs.create_shards.slices tier=quick kind=Kb props=C08 bound="every buffer of 1..=6 symbolic bytes, E in 1..=3, parity in 0..=2, k = ceil(len/E)" timeout=900
    /// source shard i == buffer[i*E .. (i+1)*E] zero padded to E, followed by `parity` all-zero placeholders of E bytes
    /// (filled by reed-solomon-erasure `encode`), exactly k + parity shards, every shard exactly E bytes
    #[cfg(kani)]
    #[kani::proof]
    #[kani::unwind(8)]
    #[kani::stub(alloc::fmt::format, stub_format)]
    #[kani::stub(crate::tools::error::FluteError::new, stub_flute_error_new)]
    fn create_shards_slices() {
        h_create_shards_slices(kani::any(), kani::any(), kani::any(), kani::any());
    }
    pub fn h_create_shards_slices(buf: [u8; MAXLEN], len: usize, e: usize, parity: usize) {
        vk_assume!(len >= 1 && len <= MAXLEN); // an empty buffer never gets here, see h_create_shards_empty
        vk_assume!(e >= 1 && e <= 3);
        vk_assume!(parity <= 2);
        let k = (len + e - 1) / e;
        let params = RSCodecParam { nb_source_symbols: k, nb_parity_symbols: parity, encoding_symbol_length: e };
        let buffer = &buf[..len];
        let shards = match params.create_shards(buffer) {
            Ok(s) => s,
            Err(_) => {
                assert!(false); // k == ceil(len/E) is what Block::new_from_buffer passes
                return;
            }
        };
        assert!(shards.len() == k + parity);
        let mut i = 0;
        while i < shards.len() {
            assert!(shards[i].len() == e);
            let mut j = 0;
            while j < e {
                let at = i * e + j;
                let want = if i < k && at < len { buffer[at] } else { 0 };
                assert!(shards[i][j] == want);
                j += 1;
            }
            i += 1;
        }
        vk_cover!(len == 6 && e == 3 && parity == 2);
        vk_cover!(len == 5 && e == 3 && parity == 1); // padded last source symbol
        vk_cover!(len == 1 && e == 3 && parity == 0);
    }

    // @HARNESS id=C08.rs.create_shards.count_mismatch_is_error tier=quick kind=Kb props=C08 bound="every buffer of 1..=6 symbolic bytes, E in 1..=3, any announced k in 0..=7" timeout=900
    /// create_shards is Ok exactly when the announced number of source symbols is ceil(len/E)
    #[cfg(kani)]
    #[kani::proof]
    #[kani::unwind(8)]
    #[kani::stub(alloc::fmt::format, stub_format)]
    #[kani::stub(crate::tools::error::FluteError::new, stub_flute_error_new)]
    fn create_shards_count() {
        h_create_shards_count(kani::any(), kani::any(), kani::any(), kani::any());
    }
    pub fn h_create_shards_count(buf: [u8; MAXLEN], len: usize, e: usize, k: usize) {
        vk_assume!(len >= 1 && len <= MAXLEN);
        vk_assume!(e >= 1 && e <= 3);
        vk_assume!(k <= 7);
        let params = RSCodecParam { nb_source_symbols: k, nb_parity_symbols: 1, encoding_symbol_length: e };
        let r = params.create_shards(&buf[..len]);
        assert!(r.is_ok() == (k == (len + e - 1) / e));
        vk_cover!(r.is_ok());
        vk_cover!(r.is_err());
    }

    // @HARNESS id=C08.rs.new.rejects_zero_source_symbols tier=quick kind=Kb props=C08 bound="k = 0, parity in 0..=255, every E" timeout=900
    /// RSGalois8Codec::new(0, parity, E) is Err.  Block::create_shards_reed_solomon_gf8 calls `new(nb_source_symbols, ..)?`
    /// BEFORE `encode`, and nb_source_symbols = ceil(buffer.len()/E) is 0 exactly for an empty buffer, so the
    /// `shards.last_mut().unwrap()` of RSCodecParam::create_shards (a panic on an empty buffer) is not reached from Block.
    #[cfg(kani)]
    #[kani::proof]
    #[kani::unwind(4)]
    #[kani::stub(alloc::fmt::format, stub_format)]
    #[kani::stub(crate::tools::error::FluteError::new, stub_flute_error_new)]
    fn new_rejects_zero_source_symbols() {
        h_new_rejects_zero_source_symbols(kani::any(), kani::any());
    }
    pub fn h_new_rejects_zero_source_symbols(parity: u8, e: u16) {
        let r = RSGalois8Codec::new(0, parity as usize, e as usize);
        assert!(r.is_err());
        vk_cover!(parity > 0 && e > 0);
    }
}
