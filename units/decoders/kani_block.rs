// appended to src/sender/block.rs (scratch copy only) -- C08: No-Code shard slicing (iterator adapters, outside Verus)
#[cfg(any(kani, test))]
#[allow(dead_code, unused_imports, unused_macros)]
mod verif_kani {
    use super::*;
    use crate::tools::error::verif_kani_stubs::*;
    use crate::{vk_assume, vk_cover};

    const MAXLEN: usize = 6;

    /// independent reference: source symbol i of a block is buffer[i*E .. min((i+1)*E, len)] (RFC 5052 section 9.1:
    /// the block is cut into E-byte symbols, only the last one may be short)
    fn ref_symbol(buffer: &[u8], e: usize, i: usize) -> &[u8] {
        let lo = i * e;
        let hi = if lo + e < buffer.len() { lo + e } else { buffer.len() };
        &buffer[lo..hi]
    }

    // @HARNESS id=C08.block.create_shards_no_code.slices tier=quick kind=Kb props=C08 bound="every buffer of 0..=6 symbolic bytes, E in 1..=3" timeout=900
    /// shard i == buffer[i*E .. min((i+1)*E, len)], ESI == index, exactly ceil(len/E) shards (none for an empty buffer)
    #[cfg(kani)]
    #[kani::proof]
    #[kani::unwind(8)]
    #[kani::stub(alloc::fmt::format, stub_format)]
    #[kani::stub(crate::tools::error::FluteError::new, stub_flute_error_new)]
    fn create_shards_no_code_slices() {
        h_create_shards_no_code_slices(kani::any(), kani::any(), kani::any());
    }
    pub fn h_create_shards_no_code_slices(buf: [u8; MAXLEN], len: usize, e: u16) {
        vk_assume!(len <= MAXLEN);
        vk_assume!(e >= 1 && e <= 3); // E == 0 is rejected by Block::new_from_buffer before any slicing
        let oti = Oti::new_no_code(e, 64);
        let buffer = &buf[..len];
        let shards = Block::create_shards_no_code(&oti, buffer);
        let e = e as usize;
        let k = (len + e - 1) / e;
        assert!(shards.len() == k);
        let mut i = 0;
        while i < shards.len() {
            assert!(shards[i].esi() == i as u32);
            let want = ref_symbol(buffer, e, i);
            let got = shards[i].data();
            assert!(got.len() == want.len());
            let mut j = 0;
            while j < want.len() {
                assert!(got[j] == want[j]);
                j += 1;
            }
            // only the last symbol may be short, and it is never empty
            assert!(got.len() == e || (i + 1 == k && got.len() > 0));
            i += 1;
        }
        vk_cover!(len == 6 && e == 3);
        vk_cover!(len == 5 && e == 2);
        vk_cover!(len == 0);
        vk_cover!(len == 6 && e == 1);
    }

    // @HARNESS id=C08.block.new_from_buffer.no_code_read_order tier=quick kind=Kb props=C08 bound="every buffer of 1..=4 symbolic bytes, E in 1..=2, No-Code" timeout=900
    /// Block::new_from_buffer + Block::read (No-Code): the symbols come out in increasing ESI 0,1,..,k-1, each once,
    /// all flagged source, `last` exactly on ESI k-1, their concatenation is the buffer, then None
    #[cfg(kani)]
    #[kani::proof]
    #[kani::unwind(6)]
    #[kani::stub(alloc::fmt::format, stub_format)]
    #[kani::stub(crate::tools::error::FluteError::new, stub_flute_error_new)]
    fn no_code_read_order() {
        h_no_code_read_order(kani::any(), kani::any(), kani::any(), kani::any());
    }
    pub fn h_no_code_read_order(buf: [u8; 4], len: usize, e: u16, sbn: u32) {
        vk_assume!(len >= 1 && len <= 4);
        vk_assume!(e >= 1 && e <= 2);
        let oti = Oti::new_no_code(e, 64);
        let buffer = &buf[..len];
        let e = e as usize;
        let k = (len + e - 1) / e;
        let mut block = match Block::new_from_buffer(sbn, buffer, k as u64, &oti) {
            Ok(b) => b,
            Err(_) => {
                assert!(false);
                return;
            }
        };
        assert!(block.nb_source_symbols == k);
        let mut pos = 0usize;
        let mut i = 0usize;
        while i < k {
            assert!(!block.is_empty());
            match block.read() {
                None => assert!(false),
                Some((sym, last)) => {
                    assert!(sym.esi == i as u32);
                    assert!(sym.sbn == sbn);
                    assert!(sym.is_source_symbol);
                    assert!(last == (i + 1 == k));
                    let mut j = 0;
                    while j < sym.symbols.len() {
                        assert!(pos + j < len && sym.symbols[j] == buffer[pos + j]);
                        j += 1;
                    }
                    pos += sym.symbols.len();
                }
            }
            i += 1;
        }
        assert!(pos == len);
        assert!(block.is_empty());
        assert!(block.read().is_none());
        vk_cover!(len == 4 && e == 2);
        vk_cover!(len == 3 && e == 2);
    }

    // @HARNESS id=C08.block.new_from_buffer.empty_buffer_rs_is_error tier=quick kind=Kb props=C08 bound="empty buffer, every E >= 1, every (B, parity) accepted by Oti::new_reed_solomon_rs28" timeout=900
    /// an empty block buffer under a Reed-Solomon OTI is refused with Err (RSGalois8Codec::new(0, ..) fails), so the
    /// `shards.last_mut().unwrap()` of RSCodecParam::create_shards -- which panics on an empty buffer -- is not reached
    #[cfg(kani)]
    #[kani::proof]
    #[kani::unwind(4)]
    #[kani::stub(alloc::fmt::format, stub_format)]
    #[kani::stub(crate::tools::error::FluteError::new, stub_flute_error_new)]
    fn empty_buffer_rs() {
        h_empty_buffer_rs(kani::any(), kani::any(), kani::any(), kani::any());
    }
    pub fn h_empty_buffer_rs(e: u16, b: u8, parity: u8, sbn: u32) {
        vk_assume!(e >= 1);
        let oti = match Oti::new_reed_solomon_rs28(e, b, parity) {
            Ok(o) => o,
            Err(_) => return,
        };
        let empty: [u8; 0] = [];
        let r = Block::new_from_buffer(sbn, &empty, 0, &oti);
        assert!(r.is_err());
        vk_cover!(parity > 0);
    }
}
