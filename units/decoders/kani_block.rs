// @READY (registered in vf/props.py)
// appended to src/sender/block.rs (scratch copy only) -- C08: No-Code shard slicing (iterator adapters, outside Verus)
#[cfg(any(kani, test))]
#[allow(dead_code, unused_imports, unused_macros)]
mod verif_kani {
    use super::*;
    use crate::tools::error::verif_kani_stubs::*;
    use crate::{vk_assume, vk_cover};

    const MAXLEN: usize = 6;

    /// independent reference: source symbol i of a block is buffer[i*E .. min((i+1)*E, len)] (RFC 5052 section 9.1:
    /// the block is cut into E-byte symbols, only the last one may be short)
    fn ref_symbol(buffer: &[u8], e: usize, i: usize) -> &[u8] {
        let lo = i * e;
        let hi = if lo + e < buffer.len() { lo + e } else { buffer.len() };
        &buffer[lo..hi]
    }

    /// shard i == buffer[i*E .. min((i+1)*E, len)], ESI == index, exactly ceil(len/E) shards (none for an empty buffer)
    fn check_no_code_slices(buf: [u8; MAXLEN], len: usize, e: u16) {
        let oti = Oti::new_no_code(e, 64);
        let buffer = &buf[..len];
        let shards = Block::create_shards_no_code(&oti, buffer);
        let e = e as usize;
        let k = (len + e - 1) / e;
        assert!(shards.len() == k);
        let mut i = 0;
        while i < shards.len() {
            assert!(shards[i].esi() == i as u32);
            let want = ref_symbol(buffer, e, i);
            let got = shards[i].data();
            assert!(got.len() == want.len());
            let mut j = 0;
            while j < want.len() {
                assert!(got[j] == want[j]);
                j += 1;
            }
            // only the last symbol may be short, and it is never empty
            assert!(got.len() == e || (i + 1 == k && got.len() > 0));
            i += 1;
        }
    }

    // E == 0 is rejected by Block::new_from_buffer before any slicing.  Lengths and E are enumerated by concrete loops
    // (the bytes stay symbolic): with a symbolic length CBMC needed 150..290 s and 5..7 GB per harness.

    // @HARNESS id=C08.block.create_shards_no_code.slices tier=quick kind=Kb props=C08 bound="every buffer of 0..=6 symbolic bytes, E in 1..=3" timeout=900
    /// shard i == buffer[i*E .. min((i+1)*E, len)], ESI == index, exactly ceil(len/E) shards (none for an empty buffer)
    #[cfg(kani)]
    #[kani::proof]
    #[kani::unwind(9)]
    #[kani::stub(alloc::fmt::format, stub_format)]
    #[kani::stub(crate::tools::error::FluteError::new, stub_flute_error_new)]
    fn no_code_slices() {
        h_no_code_slices(kani::any());
    }
    pub fn h_no_code_slices(buf: [u8; MAXLEN]) {
        let mut e = 1u16;
        while e <= 3 {
            let mut len = 0usize;
            while len <= MAXLEN {
                check_no_code_slices(buf, len, e);
                len += 1;
            }
            e += 1;
        }
        vk_cover!(buf[5] == 0xA5);
    }

    // Abandoned variants of the next harness: through Block::new_from_buffer itself -- which drags the Reed-Solomon /
    // Raptor / RaptorQ encoders into the model -- CBMC passed 11 GB after 5 minutes; with a symbolic length 1..=4 it
    // passed 23 GB after 2 minutes.  The general statement about `read` is the Verus contract C08.block.read.*;
    // this harness only checks the glue between the slicing and `read`.
    // @HARNESS id=C08.block.no_code_slices_then_read_order tier=quick kind=Kb props=C08 bound="every buffer of exactly 3 symbolic bytes, E = 2 (k = 2, short last symbol), No-Code" timeout=900
    /// create_shards_no_code + Block::read composed (the Block is built as new_from_buffer builds it: read_index 0,
    /// nb_source_symbols = ceil(len/E)): the symbols come out with ESI 0,1,..,k-1, each once, all flagged source,
    /// `last` exactly on ESI k-1, their concatenation is the buffer, then None.
    #[cfg(kani)]
    #[kani::proof]
    #[kani::unwind(5)]
    #[kani::stub(alloc::fmt::format, stub_format)]
    #[kani::stub(crate::tools::error::FluteError::new, stub_flute_error_new)]
    fn no_code_read_order() {
        h_no_code_read_order(kani::any(), kani::any());
    }
    pub fn h_no_code_read_order(buf: [u8; 3], sbn: u32) {
        let len = 3usize;
        let e = 2usize;
        let oti = Oti::new_no_code(e as u16, 64);
        let buffer = &buf[..len];
        let k = (len + e - 1) / e;
        let mut block = Block { sbn, read_index: 0, shards: Block::create_shards_no_code(&oti, buffer), nb_source_symbols: k };
        let mut pos = 0usize;
        let mut i = 0usize;
        while i < k {
            assert!(!block.is_empty());
            match block.read() {
                None => assert!(false),
                Some((sym, last)) => {
                    assert!(sym.esi == i as u32);
                    assert!(sym.sbn == sbn);
                    assert!(sym.is_source_symbol);
                    assert!(last == (i + 1 == k));
                    let mut j = 0;
                    while j < sym.symbols.len() {
                        assert!(pos + j < len && sym.symbols[j] == buffer[pos + j]);
                        j += 1;
                    }
                    pos += sym.symbols.len();
                }
            }
            i += 1;
        }
        assert!(pos == len);
        assert!(block.is_empty());
        assert!(block.read().is_none());
        vk_cover!(buf[2] == 7);
    }
}
