// Native witness search for unit `getext` (appended to src/common/lct.rs in a scratch copy).
use super::*;

#[derive(Debug, PartialEq)]
enum Walk { Found(Vec<u8>), NotFound, Malformed }

/// RFC 5651 section 5.2 reference walk (HEL in 32-bit words as an integer)
fn reference(a: &[u8], ext: u8) -> Walk {
    let mut a = a;
    loop {
        if a.len() < 4 { return Walk::NotFound; }
        let hel: usize = if a[0] >= 128 { 4 } else { a[1] as usize * 4 };
        if hel == 0 || hel > a.len() { return Walk::Malformed; }
        if a[0] == ext { return Walk::Found(a[..hel].to_vec()); }
        a = &a[hel..];
    }
}

fn check(area: &[u8], ext: u8) -> bool {
    // an LCT header of 8 bytes (C=0, no TSI/TOI) in front of the extension area
    let mut data = vec![0x10u8, 0x00, 0, 0, 0, 0, 0, 0];
    data.extend(area);
    let hdr = LCTHeader { len: data.len(), cci: 0, tsi: 0, toi: 0, cp: 0, close_object: false, close_session: false, header_ext_offset: 8, length: data.len() };
    let exp = reference(area, ext);
    let d2 = data.clone();
    let got = std::panic::catch_unwind(move || match get_ext(&d2, &hdr, ext) {
        Ok(Some(s)) => Walk::Found(s.to_vec()),
        Ok(None) => Walk::NotFound,
        Err(_) => Walk::Malformed,
    });
    let obs = match &got { Ok(w) => format!("{:?}", w), Err(_) => "panic".to_string() };
    let short = |s: String| if s.len() > 90 { format!("{}...", &s[..90]) } else { s };
    if got.ok().as_ref() != Some(&exp) {
        let hex: String = area.iter().take(16).map(|b| format!("{:02x}", b)).collect();
        println!("WITNESS {{\"fn\":\"get_ext\",\"input\":{{\"ext\":{},\"area_len\":{},\"area_prefix_hex\":\"{}\",\"area_hex\":\"{}\"}},\"observed\":\"{}\",\"expected\":\"{}\"}}",
            ext, area.len(), hex, area.iter().map(|b| format!("{:02x}", b)).collect::<String>(), short(obs), short(format!("{:?}", exp)));
        return true;
    }
    false
}

fn unhex(s: &str) -> Vec<u8> {
    (0..s.len() / 2).map(|i| u8::from_str_radix(&s[2 * i..2 * i + 2], 16).unwrap()).collect()
}

#[test]
fn search() {
    std::panic::set_hook(Box::new(|_| {}));
    if let Ok(inp) = std::env::var("VERIF_REPLAY_INPUT") {
        let ext: u8 = inp.split("\"ext\":").nth(1).unwrap().trim().split(|c: char| !c.is_ascii_digit()).next().unwrap().parse().unwrap();
        let hex = inp.split("\"area_hex\":").nth(1).unwrap().trim().trim_start_matches('"').split('"').next().unwrap().to_string();
        let bad = check(&unhex(&hex), ext);
        println!("WSTATS {{\"evaluations\":1,\"mode\":\"replay\"}}");
        assert!(!bad, "replayed input still fails");
        return;
    }
    let mut evals = 0u64;
    let mut found = 0;
    // an unknown variable-length extension of every legal length, followed by EXT_FTI (64) / EXT_FDT (192)
    for hel in 0u16..=255 {
        for target in [64u8, 192u8, 2u8] {
            let mut area = vec![10u8, hel as u8];
            area.resize(std::cmp::max(4, hel as usize * 4), 0xAB);
            if target >= 128 { area.extend([target, 0x20, 0, 1]); } else { area.extend([target, 1, 0, 0]); }
            for cut in [0usize, 4] {
                evals += 1;
                if found < 3 && check(&area[..area.len() - cut], target) { found += 1; }
            }
        }
    }
    // exhaustive tiny areas over a small alphabet
    let alpha = [0u8, 1, 2, 3, 63, 64, 65, 127, 128, 192, 255];
    for n in 0..=8usize {
        let mut idx = vec![0usize; n];
        loop {
            let area: Vec<u8> = idx.iter().map(|&i| alpha[i]).collect();
            evals += 1;
            if found < 6 && check(&area, 64) { found += 1; }
            let mut i = 0;
            while i < n { idx[i] += 1; if idx[i] < alpha.len() { break; } idx[i] = 0; i += 1; }
            if i == n { break; }
            if n >= 7 && evals > 3_000_000 { break; }
        }
    }
    println!("WSTATS {{\"evaluations\":{},\"mode\":\"search\"}}", evals);
    assert!(found == 0, "witness found");
}
