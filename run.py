#!/usr/bin/env python3
"""Entry point of the flute contract-verification machinery.

  python3 /verif/run.py <Cxx> [--tier quick|thorough]
  python3 /verif/run.py --replay <replay file>
  python3 /verif/run.py --show-unit <unit>
  python3 /verif/run.py --setup

exit 0: every obligation discharged (known findings excepted) / 1: VIOLATION / 2: undecided
"""
import argparse
import hashlib
import json
import os
import re
import sys
import time

sys.path.insert(0, os.path.dirname(os.path.abspath(__file__)))
from vf import common as C
from vf import kani as K
from vf import props as P
from vf import verus as V
from vf import witness as W
from vf import structural as S


def known_match(known, oid):
    """an OPEN finding listed for exactly this obligation; a finding the verifier reports under one id may also be met by a unit's native
    search, whose id is listed under `native_ids` (an entry ending in `*` is a prefix: the id embeds the witness' size)"""
    for k in known:
        if k.get("status") != "open":
            continue
        if k.get("obligation") == oid:
            return k
        for n in k.get("native_ids", []):
            if n == oid or (n.endswith("*") and oid.startswith(n[:-1])):
                return k
    return None


def run_property(pid, tier):
    t0 = time.time()
    cfg = P.claimed()[pid]
    os.environ["VERIF_TIER"] = tier
    scratch = C.scratch_dir(pid)
    known = C.load_known_findings()
    obligations, failed, undecided, supporting, other_props_failed = [], [], [], [], []
    functions, types, trusted, rewrites = [], [], [], {}
    hints_removed = []
    unit_summ = []
    checker_cmds = []
    smt_ms = 0
    canary_ok = True
    undecided_units = set()
    # ---------------------------------------------------------------- Verus units
    for unit in cfg.get("verus", []):
        udir = os.path.join(C.VERIF, "units", unit)
        r = V.run_unit(C.REPO, udir, os.path.join(scratch, "gen"))
        if r.failed and not r.undecided:
            # instability guard: one retry with 4x rlimit before anything is reported
            r2 = V.run_unit(C.REPO, udir, os.path.join(scratch, "gen2"), rlimit=40)
            if not r2.undecided and len(r2.failed) < len(r.failed):
                r = r2
        if tier == "thorough" and not r.failed and not r.undecided:
            # stability pass: 4x rlimit must agree
            r2 = V.run_unit(C.REPO, udir, os.path.join(scratch, "gen2"), rlimit=40)
            if r2.failed or r2.undecided:
                undecided.append("unit %s unstable under rlimit change: %s %s" % (unit, [f["id"] for f in r2.failed], r2.undecided))
        for u in r.undecided:
            undecided.append("unit %s: %s" % (unit, u))
            undecided_units.add(unit)
        # obligations that count for THIS property: clauses tagged with it, the implicit-safety groups of the functions that
        # carry such a clause (all functions when the unit has no clause tagged for this property), template lemmas tagged with it
        tagged_fns = {o["fn"] for o in r.obligations if o["kind"] == "tagged" and (o["id"].startswith(pid + ".") or pid in o.get("also", []))}
        for o in r.obligations:
            o = dict(o)
            o["unit"] = unit
            mine = (o["id"].startswith(pid + ".") or pid in o.get("also", [])) if o["kind"] == "tagged" else (o["fn"] in tagged_fns or not tagged_fns)
            if mine:
                obligations.append(o)
            else:
                supporting.append(o)
        for f in r.failed:
            f = dict(f)
            f["unit"] = unit
            f["verifier_output"] = _verifier_excerpt(r.raw_err, f)
            if f["id"].startswith("AUX."):
                # an auxiliary obligation (e.g. termination of a loop no listed property speaks about): proved and reported in the evidence
                # while it holds; when it stops being proved this is not a violation of the property -> undecided (exit 2), never an alarm
                undecided.append("auxiliary obligation %s of unit %s is no longer proved (not a clause of any listed property): %s" % (f["id"], unit, f.get("message")))
                continue
            m = re.match(r"(C\d\d)\.", f["id"])
            if m and m.group(1) != pid and pid not in f.get("also", []) and m.group(1) in P.claimed() and unit in P.claimed()[m.group(1)].get("verus", []):
                other_props_failed.append({"id": f["id"], "reported_under": m.group(1)})   # a clause of another property: decided and reported by that property's check
                continue
            failed.append(f)
        for fn in r.functions:
            functions.append({k: fn.get(k) for k in ("path", "impl", "trait", "name", "lines", "sha256", "rewrites", "verified", "assumed_contract", "note")} | {"unit": unit, "backend": "verus"})
        types += [dict(t, unit=unit) for t in r.types]
        trusted += [dict(t, unit=unit) for t in r.trusted]
        hints_removed += [dict(h, unit=unit) for h in getattr(r, "hints_removed", [])]
        for k, v in r.rewrite_counts.items():
            rewrites[k] = rewrites.get(k, 0) + v
        smt_ms += r.times.get("smt_ms") or 0
        if r.canary_rejected is False:
            canary_ok = False
        checker_cmds.append(r.cmd)
        unit_summ.append({"unit": unit, "tagged_clauses": r.tagged, "functions_extracted": len(r.functions),
                          "proof_fns_and_exec_fns_verified": len([1 for v in r.verified_fns.values() if v["success"]]),
                          "canary_rejected": r.canary_rejected, "times": r.times})
    # ---------------------------------------------------------------- Kani groups
    kani_results = []
    bounded_checks = []
    kani_stats = None
    kharn = []
    appends = {}
    for grp in cfg.get("kani", []):
        hfile = os.path.join(C.VERIF, grp["src"])
        appends[grp["target"]] = hfile
        for h in K.parse_harness_file(hfile, grp["target"]):
            h["target"] = grp["target"]
            if pid not in h["props"]:
                continue
            if h["tier"] == "thorough" and tier != "thorough":
                continue
            kharn.append(h)
    if kharn:
        copy_dir, kani_stats = K.prepare_copy(pid, appends)
        if kani_stats["lines_removed_or_changed"]:
            undecided.append("kani scratch copy differs from /repo beyond appended lines")
        kani_results = K.run_harnesses(copy_dir, kharn)
        for r in kani_results:
            h = r["harness"]
            checker_cmds.append(r["cmd"])
            base = {"id": h["id"], "fn": h["fn"], "backend": "kani/cbmc", "kind": h["kind"], "kani_checks": r["n_checks"],
                    "solver_s": r["solver_s"], "wall_s": r["wall_s"], "stubs": r["stubs"], "bound": h.get("bound")}
            if r["status"] == "success" and not r["unsat_covers"] and not r["undetermined"]:
                base["status"] = "discharged"
                (bounded_checks if h["kind"].startswith("Kb") else obligations).append(base)
            elif r["status"] == "failed" and r["failed_checks"]:
                if any("unwinding assertion" in c.get("desc", "") for c in r["failed_checks"]):
                    undecided.append("kani harness %s: unwinding bound too small (%s)" % (h["id"], r["failed_checks"][0].get("loc", "")[-120:]))
                    continue
                for c in r["failed_checks"]:
                    desc = c.get("desc", "")
                    locfn = (c.get("loc", "").split(" in function ")[-1]).split("::")[-1]
                    oid = "%s:%s@%s" % (h["id"], desc[:100], locfn)
                    failed.append({"id": oid, "fn": locfn, "kind": "kani-check", "status": "failed", "backend": "kani/cbmc",
                                   "where": c.get("loc"), "message": desc, "harness": h, "unit": grp_of(h), "verifier_output": r["raw_tail"][-1500:],
                                   "appends": appends, "target": h["target"]})
            elif r["unsat_covers"]:
                undecided.append("kani harness %s: cover unreachable (vacuous harness): %s" % (h["id"], [c["name"] for c in r["unsat_covers"]]))
            else:
                undecided.append("kani harness %s: %s (rc=%s) %s" % (h["id"], r["status"], r["rc"], r["raw_tail"][-400:].replace("\n", " | ")))
    # ---------------------------------------------------------------- structural obligations
    structural = []
    s_failed = []
    for name in cfg.get("structural", []):
        fn = getattr(S, name, None)
        if fn is None:
            continue
        for res in fn(C.REPO):
            structural.append(res)
            if res["status"] == "failed":
                s_failed.append({"id": res["id"], "fn": res.get("fn", "?"), "kind": "structural", "status": "failed", "backend": "structural-scan",
                                 "where": res.get("where"), "message": res.get("message", ""), "unit": "structural", "verifier_output": res.get("message", "")})
            elif res["status"] == "undecided":
                undecided.append("structural %s: %s" % (res["id"], res.get("message")))
    # ---------------------------------------------------------------- thorough tier: the witness searches run proactively
    # ... and, in every tier, for a unit the verifier could not decide (the code left the verifier's dialect, an anchor was lost): the
    # bounded native search of that unit stands in (labelled bounded; finding nothing leaves the property UNDECIDED, exit 2)
    native_search = []
    wunits = []
    if tier == "thorough":
        wunits = [u for u in cfg.get("verus", []) if u in P.WITNESS]
        if cfg.get("fallback_witness") in P.WITNESS and cfg["fallback_witness"] not in wunits:
            wunits.append(cfg["fallback_witness"])
    wunits += [u for u in sorted(undecided_units) if u in P.WITNESS and u not in wunits]
    # searches registered with "always": they check a clause no contract states (e.g. byte content behind a third-party encoder)
    wunits += [u for u in cfg.get("verus", []) if P.WITNESS.get(u, {}).get("always") and u not in wunits]
    if wunits:
        for u in wunits:
            w = P.WITNESS[u]
            try:
                wits, wlog, ok, stats, cmd = W.run_witness(pid, w["target"], os.path.join(C.VERIF, w["src"]))
            except Exception as e:
                wits, wlog, ok, stats, cmd = [], repr(e), False, {}, ""
            native_search.append({"unit": u, "ran": ok, "evaluations": stats.get("evaluations"), "witnesses": len(wits),
                                  "reason": "stand-in for an undecided unit" if u in undecided_units else ("registered for every tier" if P.WITNESS[u].get("always") else "thorough tier")})
            if not ok:
                undecided.append("native search of unit %s did not run: %s" % (u, wlog[-300:].replace("\n", " | ")))
            already = {f["fn"] for f in failed if f.get("kind") != "native-witness"}   # functions the verifier already reported
            seen_ids = {f["id"] for f in failed}
            for x in wits:
                if x.get("fn") in already:
                    continue
                # the real code misbehaves on an input although every contract was discharged: report it (replayed natively by construction)
                # identity of a native finding: unit, function and the clause it contradicts (the witness' `obl`, else a slug of its `expected` text)
                clause = x.get("obl") or re.sub(r"[^a-z0-9]+", "_", str(x.get("expected", "")).lower()).strip("_")[:70]
                nid = "native-search.%s.%s:%s" % (u, x.get("fn"), clause)
                if nid in seen_ids:
                    continue          # one report per (function, clause); the first witness is the replay
                kf = known_match(known, nid)
                if kf and kf.get("property") != pid and kf.get("property") in P.claimed():
                    continue          # an open finding of another claimed property met in a shared unit: printed by that property's check
                seen_ids.add(nid)
                failed.append({"id": nid, "fn": x.get("fn"), "kind": "native-witness", "status": "failed", "backend": "native-search",
                               "where": w["target"], "message": "%s (expected: %s)" % (x.get("observed"), x.get("expected")), "unit": u, "verifier_output": json.dumps(x), "native_witness": x})
    # a structural obligation is a statement about the SHAPE of the code (a call-site scan): when the shape is gone the argument no longer
    # applies, which is not the same as the property being broken (a harmless refactoring changes shapes too). It counts as a violation only
    # when the property's bounded native search exhibits a failing input on the tree under test; otherwise the check is undecided (exit 2).
    if s_failed:
        fb = cfg.get("fallback_witness")
        confirmed = False
        if fb in P.WITNESS:
            try:
                wits, wlog, ok, stats, cmd = W.run_witness(pid + "-s", P.WITNESS[fb]["target"], os.path.join(C.VERIF, P.WITNESS[fb]["src"]))
            except Exception as e:
                wits, ok = [], False
            native_search.append({"unit": fb, "ran": ok, "witnesses": len(wits), "reason": "confirmation of a failed structural obligation"})
            confirmed = bool(wits)
        if confirmed or any(f for f in failed):
            failed += s_failed          # reported with the witness (report_violations attaches it) / next to a verifier failure
        else:
            for f in s_failed:
                undecided.append("structural obligation %s no longer matches the code (%s) and no failing input was found: not decidable by a call-site scan" % (f["id"], f.get("message", "")[:160]))
    # ---------------------------------------------------------------- triage of failures
    violations, known_hits = [], []
    for f in failed:
        k = known_match(known, f["id"])
        if k:
            known_hits.append((f, k))
        else:
            violations.append(f)
    replay_paths = []
    if violations:
        replay_paths = report_violations(pid, violations, kani_results)
    printed = set()
    for f, k in known_hits:
        if k["obligation"] in printed:
            continue            # the verifier's clause and the native search may both meet the same listed finding
        printed.add(k["obligation"])
        print("KNOWN-FINDING: property=%s %s" % (pid, k["what_fails"]))
    # ---------------------------------------------------------------- evidence
    # open known findings are reported on their own line and in `known_findings_open`; they are neither discharged nor counted
    n_dis = len([o for o in obligations if o["status"] == "discharged"])
    n_obl = n_dis + len(violations)
    annotated_not_proved = sorted({f["fn"] for f in failed})
    samples = []
    for o in obligations[:3] + obligations[-2:]:
        samples.append({k: o.get(k) for k in ("id", "fn", "kind", "backend", "status", "unit", "ms", "kani_checks")})
    for f in failed[:3]:
        samples.append({"id": f["id"], "status": "failed", "where": f.get("where"), "message": f.get("message")})
    ev = {
        "property_id": pid,
        "tier": tier,
        "seed": C.seed(),
        "level": cfg["level"],
        "wall_s": round(time.time() - t0, 2),
        "violations": len(violations),
        "coverage": {
            "obligations": n_obl,
            "discharged": n_dis,
            "checker_cmd": " ; ".join(sorted(set(re.sub(r"/var/tmp/flute-verif-[^/]+", "<scratch>", c) for c in checker_cmds if c))) or "structural scan only",
            "trusted_base": ["Verus 0.2026.09.13 + Z3", "Kani 0.68 + CBMC 6.11 + CaDiCaL", "rustc (replay)",
                             "extractor /verif/vf/extract.py and its closed rewrite list R1-R11"]
                            + sorted({"%s: %s" % ((t.get("item") or t.get("token") or "")[:70], t["reason"][:160]) for t in trusted}),
            "explanation": cfg.get("explanation", ""),
            "samples": samples,
            "functions_under_contract": functions,
            "functions_annotated_but_not_proved": annotated_not_proved,
            "types_extracted": [{k: t.get(k) for k in ("kind", "path", "name", "lines", "fields_kept", "fields_dropped", "unit")} for t in types],
            "rewrites_applied": rewrites,
            "units": unit_summ,
            "solver_ms_verus": smt_ms,
            "kani": [{"id": r["harness"]["id"], "kind": r["harness"]["kind"], "status": r["status"], "checks": r["n_checks"], "covers": r["covers"],
                      "solver_s": r["solver_s"], "wall_s": r["wall_s"], "stubs": r["stubs"], "bound": r["harness"].get("bound")} for r in kani_results],
            "kani_copy_diff": kani_stats,
            "bounded_checks": bounded_checks,
            "structural_checks": structural,
            "native_search_thorough_tier": native_search,
            "supporting_obligations_of_other_properties_in_the_same_units": len(supporting),
            "auxiliary_obligations": [{"id": o["id"], "status": o["status"], "unit": o.get("unit"), "fn": o.get("fn")} for o in supporting if o["id"].startswith("AUX.")],
            "hints_removed_this_run": hints_removed,
            "canary_rejected": canary_ok,
            "failed_clauses_of_other_properties_in_shared_units": other_props_failed,
            "known_findings_open": [{"id": f["id"], "what_fails": k["what_fails"]} for f, k in known_hits],
            "failed_obligations": [{"id": f["id"], "where": f.get("where"), "message": f.get("message"), "known_finding": known_match(known, f["id"]) is not None} for f in failed],
            "undecided": undecided,
            "not_covered": cfg.get("not_covered", []),
            "obligation_table": [{k: o.get(k) for k in ("id", "fn", "kind", "backend", "status", "unit", "ms", "rlimit", "kani_checks", "solver_s", "bound")} for o in obligations],
        },
        "assumptions": sorted({"[%s] %s — %s" % (t["unit"], (t.get("item") or "")[:80], t["reason"]) for t in trusted}) + cfg.get("assumptions", []),
    }
    if cfg["level"] != "proof":
        ev["coverage"]["explanation"] = cfg.get("explanation", "bounded / structural obligations only")
    os.makedirs(os.path.join(C.OUT, "evidence"), exist_ok=True)
    with open(os.path.join(C.OUT, "evidence", pid + ".json"), "w") as f:
        json.dump(ev, f, indent=1, sort_keys=False)
    # ---------------------------------------------------------------- verdict
    for f, rp in zip(violations, replay_paths):
        pass
    if violations:
        return 1
    if undecided:
        for u in undecided:
            print("UNDECIDED property=%s reason=%s" % (pid, u[:500]))
        return 2
    if n_dis == 0 and not structural and not bounded_checks:
        print("UNDECIDED property=%s reason=no obligation generated (vacuous check)" % pid)
        return 2
    print("OK property=%s tier=%s obligations=%d discharged=%d bounded=%d structural=%d known_findings=%d wall=%.1fs" % (
        pid, tier, n_obl, n_dis, len(bounded_checks), len(structural), len(known_hits), time.time() - t0))
    return 0


def grp_of(h):
    return os.path.basename(os.path.dirname(h["file"]))


def _verifier_excerpt(raw, f):
    out = []
    for l in raw.split("\n"):
        if not l.startswith("{"):
            continue
        try:
            d = json.loads(l)
        except Exception:
            continue
        if any(s.get("line_start") == f.get("gen_line") for s in d.get("spans", [])):
            out.append(d.get("rendered") or d.get("message"))
    return "\n".join(out)[:3000]


def report_violations(pid, violations, kani_results):
    """witness search + replay file per violated obligation; prints the VIOLATION lines"""
    paths = []
    wit_cache = {}
    for f in violations:
        unit = f.get("unit")
        wit = None
        wlog = ""
        replay = None
        if not (f["backend"].startswith("verus") and unit in P.WITNESS) and not f["backend"].startswith("kani") and P.claimed()[pid].get("fallback_witness") in P.WITNESS:
            unit = P.claimed()[pid]["fallback_witness"]   # structural obligations: the property's own native search supplies the witness
        if f["backend"] == "native-search":
            wit = f["native_witness"]
            w = P.WITNESS[unit]
            replay = {"kind": "native-test", "unit": unit, "target": w["target"], "src": w["src"], "input": wit.get("input")}
        elif (f["backend"].startswith("verus") or f["backend"] == "structural-scan") and unit in P.WITNESS:
            w = P.WITNESS[unit]
            if unit not in wit_cache:
                try:
                    wits, wlog, ok, stats, cmd = W.run_witness(pid, w["target"], os.path.join(C.VERIF, w["src"]))
                except Exception as e:  # witness machinery must never mask the violation
                    wits, wlog, ok, stats, cmd = [], "witness search failed: %r" % e, False, {}, ""
                wit_cache[unit] = (wits, wlog, ok, stats, cmd)
            wits, wlog, ok, stats, cmd = wit_cache[unit]
            for x in wits:
                if x.get("fn") == f["fn"] or x.get("obl") and f["id"].startswith(x["obl"]):
                    wit = x
                    break
            if wit is None and wits:
                # a witness for another function of the same unit still shows a real misbehaviour
                wit = dict(wits[0], note="witness is for a different function of the same unit")
            if wit:
                replay = {"kind": "native-test", "unit": unit, "target": w["target"], "src": w["src"], "input": wit.get("input")}
        elif f["backend"].startswith("kani"):
            h = f["harness"]
            appends = f.get("appends", {})
            try:
                copy_dir = C.repo_copy(pid)
                key = ("pb", h["fq"])
                if key not in wit_cache:
                    wit_cache[key] = K.concrete_playback(copy_dir, h)
                pbs = wit_cache[key]
                params, consts = K.body_params(h["file"], h["fn"])
                for desc, vals in pbs:
                    if params is None:
                        break
                    if desc[:60] != f["message"][:60] and len(pbs) > 1:
                        continue
                    dec = K.decode_playback(vals, params, consts)
                    if dec is None:
                        continue
                    lits, js = dec
                    rep, excerpt, cmd = K.native_replay(pid, appends, f["target"], h, lits)
                    wlog = excerpt or ""
                    if rep:
                        wit = {"fn": f["fn"], "harness": h["id"], "input": js, "observed_native": excerpt}
                        replay = {"kind": "kani-native", "harness": h, "appends": {k: os.path.relpath(v, C.VERIF) for k, v in appends.items()},
                                  "target": f["target"], "literals": lits, "cmd": cmd}
                        break
                    elif rep is False:
                        wlog = "Kani counterexample %s did not fail natively (stubbed error path or cfg difference): %s" % (json.dumps(js)[:300], excerpt)
            except Exception as e:
                wlog = "playback failed: %r" % e
        name = re.sub(r"[^A-Za-z0-9_.-]+", "_", f["id"])[:120]
        d = os.path.join(C.OUT, "replays", pid)
        os.makedirs(d, exist_ok=True)
        path = os.path.join(d, name + ".json")
        doc = {
            "property": pid, "obligation": f["id"], "function": f["fn"], "repo_location": f.get("where"), "backend": f["backend"],
            "verifier_message": f.get("message"), "verifier_output": f.get("verifier_output", ""),
            "witness": wit, "replay": replay if replay is None else json.loads(json.dumps(replay, default=str)),
            "replay_cmd": "python3 /verif/run.py --replay %s" % path,
            "no_failing_input_found": wit is None,
            "witness_search_log_tail": wlog[-1500:] if wit is None else "",
        }
        f2 = {k: v for k, v in doc.items()}
        with open(path, "w") as fh:
            json.dump(f2, fh, indent=1, default=str)
        line = "VIOLATION property=%s replay=%s" % (pid, path)
        if wit is None:
            line += " obligation=%s no-failing-input-found" % re.sub(r"\s+", "_", f["id"])[:160]
        print(line)
        paths.append(path)
    return paths


def do_replay(path):
    doc = json.load(open(path))
    rp = doc.get("replay")
    print("obligation:", doc["obligation"])
    print("location  :", doc.get("repo_location"))
    if not rp:
        print("no failing input was found for this obligation; verifier output follows")
        print(doc.get("verifier_output", ""))
        return 1
    pid = doc["property"]
    if rp["kind"] == "native-test":
        wits, log, ok, stats, cmd = W.run_witness(pid + "-replay", rp["target"], os.path.join(C.VERIF, rp["src"]), replay_input=rp["input"])
        print("replay command:", cmd, " VERIF_REPLAY_INPUT=%s" % json.dumps(rp["input"]))
        for w in wits:
            print("REPRODUCED:", json.dumps(w))
        if not ok:
            print(log)
            return 2
        return 1 if wits else 0
    if rp["kind"] == "kani-native":
        appends = {k: os.path.join(C.VERIF, v) for k, v in rp["appends"].items()}
        rep, excerpt, cmd = K.native_replay(pid + "-replay", appends, rp["target"], rp["harness"], rp["literals"])
        print("replay command:", cmd)
        print("harness body  : h_%s(%s)" % (rp["harness"]["fn"], ", ".join(x[:80] for x in rp["literals"])))
        print(excerpt)
        if rep is None:
            return 2
        print("REPRODUCED" if rep else "not reproduced (passes on this tree)")
        return 1 if rep else 0
    return 2


def do_setup():
    """warm the caches (offline): Kani dependency build and cargo test dependency build"""
    import subprocess
    os.makedirs(C.CACHE, exist_ok=True)
    d = C.repo_copy("setup")
    with open(os.path.join(d, "src/lib.rs"), "a") as f:
        f.write("\n#[cfg(kani)]\nmod verif_kani_setup { #[kani::proof] fn setup_probe() { let x: u8 = kani::any(); assert!(x as u16 + 1 > 0); } }\n")
    r1 = subprocess.run(["cargo", "kani", "--lib", "--target-dir", os.path.join(C.CACHE, "kani-target"), "--harness", "setup_probe"],
                        cwd=d, env=C.offline_env(), capture_output=True, text=True)
    print("kani warm-up:", "ok" if "VERIFICATION:- SUCCESSFUL" in r1.stdout else "FAILED\n" + (r1.stdout + r1.stderr)[-2000:])
    r2 = subprocess.run(["cargo", "test", "--offline", "--lib", "--no-run"], cwd=d,
                        env=C.test_env(), capture_output=True, text=True)
    print("cargo test warm-up:", "ok" if r2.returncode == 0 else "FAILED\n" + r2.stderr[-2000:])
    r3 = subprocess.run(["verus", "--version"], capture_output=True, text=True)
    print("verus:", r3.stdout.split("\n")[1].strip() if r3.returncode == 0 else "MISSING")
    return 0 if ("VERIFICATION:- SUCCESSFUL" in r1.stdout and r2.returncode == 0 and r3.returncode == 0) else 1


def main():
    ap = argparse.ArgumentParser()
    ap.add_argument("prop", nargs="?")
    ap.add_argument("--tier", default=os.environ.get("VERIF_TIER", "quick"), choices=["quick", "thorough"])
    ap.add_argument("--replay")
    ap.add_argument("--show-unit")
    ap.add_argument("--setup", action="store_true")
    a = ap.parse_args()
    if a.setup:
        sys.exit(do_setup())
    if a.replay:
        sys.exit(do_replay(a.replay))
    if a.show_unit:
        ex, text, linemap, gen = V.generate(C.REPO, os.path.join(C.VERIF, "units", a.show_unit), C.scratch_dir("show"))
        for i, (ln, org) in enumerate(zip(text.split("\n"), linemap)):
            tag = "%s:%d" % (os.path.basename(org[1]), org[2]) if org[0] == "repo" else ""
            print("%5d %-22s| %s" % (i + 1, tag, ln))
        return 0
    if a.prop not in P.claimed():
        print("unknown or unclaimed property %r" % a.prop)
        sys.exit(2)
    sys.exit(run_property(a.prop, a.tier))


if __name__ == "__main__":
    main()
